"""Independent spine-path reference model.

Input: an abstract document {'types': [...], 'rows': [row, ...]} where a row is {'g': '!!text'} (global comment) or
{'c': [cell, ...]} (cells as produced by kv.grammar).  The model reads only the cell *texts* ('*^', '*v', '*-', '**x')
and reconstructs, per row: the spine index of every column and the (row, col) of the cell above it on the same path.
Nothing of kernpy is used.
"""


class ModelError(Exception):
    pass


class Analysis:
    def __init__(self):
        self.spines = {}     # row index -> [spine idx per column]
        self.parents = {}    # row index -> [(row, col) | None per column]
        self.header_row = None
        self.cell_rows = []  # indexes of rows with cells
        self.global_rows = []
        self.final_paths = 0
        self.max_width = 0
        self.has_split = False
        self.has_join = False
        self.has_partial_term = False


def analyze(doc) -> Analysis:
    a = Analysis()
    paths = None  # list of [spine, above]
    rows = doc['rows']
    for i, row in enumerate(rows):
        if 'g' in row:
            a.global_rows.append(i)
            continue
        cells = row['c']
        texts = [c['t'] for c in cells]
        a.cell_rows.append(i)
        if paths is None:
            if not all(t.startswith('**') for t in texts):
                raise ModelError('first cell row is not a header row')
            a.header_row = i
            a.spines[i] = list(range(len(cells)))
            a.parents[i] = [None] * len(cells)
            paths = [[k, (i, k)] for k in range(len(cells))]
            continue
        if len(cells) != len(paths):
            raise ModelError(f'row {i}: {len(cells)} cells for {len(paths)} live paths')
        a.spines[i] = [p[0] for p in paths]
        a.parents[i] = [p[1] for p in paths]
        a.max_width = max(a.max_width, len(cells))
        newp = []
        k = 0
        n = len(cells)
        while k < n:
            t = texts[k]
            p = paths[k]
            if t == '*^':
                a.has_split = True
                newp.append([p[0], (i, k)])
                newp.append([p[0], (i, k)])
            elif t == '*-':
                pass
            elif t == '*v':
                j = k
                while j + 1 < n and texts[j + 1] == '*v' and paths[j + 1][0] == p[0]:
                    j += 1
                if j == k:
                    raise ModelError(f'row {i}: lone *v')
                a.has_join = True
                newp.append([p[0], (i, k)])  # continues under the FIRST join cell
                k = j
            else:
                newp.append([p[0], (i, k)])
            k += 1
        if 0 < len(newp) < len(paths) and any(t == '*-' for t in texts):
            a.has_partial_term = True
        paths = newp
    a.final_paths = len(paths) if paths is not None else 0
    return a


def children_map(doc, a: Analysis):
    ch = {}
    for i in a.cell_rows:
        for k, pr in enumerate(a.parents[i]):
            if pr is not None:
                ch.setdefault(pr, []).append((i, k))
    return ch


def dfs_order(doc, a: Analysis):
    """(row, col) of every cell in spine-path order: each header's subtree depth-first, first child first."""
    ch = children_map(doc, a)
    out = []
    h = a.header_row
    for k in range(len(doc['rows'][h]['c'])):
        stack = [(h, k)]
        while stack:
            n = stack.pop()
            out.append(n)
            stack.extend(reversed(ch.get(n, [])))
    return out


def render(doc, nl='\n', final=True):
    lines = []
    for row in doc['rows']:
        if 'g' in row:
            lines.append(row['g'])
        else:
            lines.append('\t'.join(c['t'] for c in row['c']))
    return nl.join(lines) + (nl if final else '')


def cells(doc):
    for i, row in enumerate(doc['rows']):
        if 'c' in row:
            for k, c in enumerate(row['c']):
                yield i, k, c
