"""Malformed cell texts (C12), four labelled kinds.  'strict' texts must be reported as errors; 'trail' texts (a complete
token followed by characters that cannot extend it, and some wrong orders) are either reported or - known finding
KF-C12-TRAIL - silently imported as their valid prefix."""
from hypothesis import strategies as st

from . import grammar as G

UNKNOWN_CHARS = ['€', 'ü', 'ß', 'Ω', '日', '¿', '§', '°', 'þ',
                 # characters that Unicode normalisation would rewrite (combining marks, singleton decompositions)
                 '\u0301', '\u0303', '\u212b', '\u2126', '\u0323',
                 # characters that str.splitlines() treats as line ends; inside a cell they are just unknown characters
                 '\x0c', '\u2028', '\x1e', '\x85']
TRUNCATED = ['4', '16.', '*clef', '*k[f#', '*M3/', '*met(', '*xywh-1:1,2,3', '*M', '*MM', 'h', '4h', 'q', '4q', '*staffx',
             '*k[', '*xywh-', '8..', '*>', '*Tr', '*clefX2']
WRONG_ORDER_STRICT = ['c4', '#c4', 'r4', 'cc#8', '4c4', '.x', '-4c', '#4c', 'n4c',
                      # stray blanks in front of an otherwise valid token
                      ' 4e', '  2g', ' =2', ' *M4/4', ' .', ' *clefG2', ' 4c 4e']
TRAIL = ['4c!x', '4cI', '4c%', '*clefG2zz', '=1||zz', '4c 4e!', '4r|', '*M4/4,', '4ch', '=foo', '4c,', '*MM120x', '4c|',
         '*k[f#]zz', '4c-#', '4c#-', '4cc#n', '*clefG2 ', '=1!', '2r!', '.!', '*!', '4c=', '*staff1x', '*met(c)x']


@st.composite
def bases(draw):
    """a valid kern token whose grammar ends in an optional / repeatable element (so the parser always looks one symbol
    past it)"""
    x = draw(st.integers(0, 3))
    if x < 3:
        c = draw(G.kern_data_cells(null_weight=0, sigs=True))
        return c['t']
    return draw(G.barlines())['t']


EDIT_CHARS = list('0123456789abcdefgrqpPLJKk;:()[]{}_^~\'".#-nxyXZ<>&?!|=*%/\\ ') + ['€']


@st.composite
def mutated(draw):
    """a valid note/rest/chord with 1-2 random edits (insert, delete, swap, replace).  Whether the result is still
    inside the grammar is NOT known to the harness: only the isolation clauses and 'nothing silently lost' apply."""
    t = draw(G.kern_data_cells(null_weight=0))['t']
    for _ in range(draw(st.integers(1, 2))):
        op = draw(st.sampled_from(['ins', 'del', 'swap', 'rep']))
        i = draw(st.integers(0, max(0, len(t) - 1)))
        if op == 'ins' or not t:
            t = t[:i] + draw(st.sampled_from(EDIT_CHARS)) + t[i:]
        elif op == 'del' and len(t) > 1:
            t = t[:i] + t[i + 1:]
        elif op == 'swap' and len(t) > 1 and i + 1 < len(t):
            t = t[:i] + t[i + 1] + t[i] + t[i + 2:]
        else:
            t = t[:i] + draw(st.sampled_from(EDIT_CHARS)) + t[i + 1:]
    t = t.strip().replace('\t', '')
    if not t or t[0] in '!' or t.startswith('**') or t in ('*^', '*v', '*-', '*+', '*x'):
        t = '4' + t.lstrip('!*') + 'c'
    return {'t': t, 'kind': 'mutated', 'strict': False}


@st.composite
def malformed(draw, with_mutated=False):
    """-> {'t': text, 'kind': unknown|truncated|order|trail|mutated, 'strict': bool}"""
    if with_mutated and draw(st.integers(0, 3)) == 0:
        return draw(mutated())
    k = draw(st.sampled_from(['unknown', 'unknown', 'truncated', 'order', 'trail', 'trail']))
    if k == 'unknown':
        b = draw(bases())
        for _ in range(draw(st.sampled_from([1, 1, 2, 3]))):  # one or several unknown characters, anywhere
            ch = draw(st.sampled_from(UNKNOWN_CHARS))
            i = draw(st.integers(0, len(b)))
            b = b[:i] + ch + b[i:]
        return {'t': b, 'kind': k, 'strict': True}
    if k == 'truncated':
        return {'t': draw(st.sampled_from(TRUNCATED)), 'kind': k, 'strict': True}
    if k == 'order':
        return {'t': draw(st.sampled_from(WRONG_ORDER_STRICT)), 'kind': k, 'strict': True}
    x = draw(st.integers(0, 2))
    if x == 0:
        return {'t': draw(st.sampled_from(TRAIL)), 'kind': k, 'strict': False}
    # a generated complete token + a character that cannot extend it
    c = draw(st.one_of(G.kern_data_cells(null_weight=0), G.clefs(), G.timesigs(), G.keysigs(), G.barlines()))
    g = draw(st.sampled_from(['!', '|', ',', '%', 'h', 'z', 'H', '=', '+', '!!x', ' ']))
    # whether the appended character really is garbage depends on the token ('=1' + '=' is the valid barline '=1='),
    # so this is labelled like an edited token: validity unknown to the harness
    return {'t': c['t'] + g, 'kind': 'mutated', 'strict': False}
