"""Malformed cell texts (C12), four labelled kinds.  'strict' texts must be reported as errors; 'trail' texts (a complete
token followed by characters that cannot extend it, and some wrong orders) are either reported or - known finding
KF-C12-TRAIL - silently imported as their valid prefix."""
from hypothesis import strategies as st

from . import grammar as G

UNKNOWN_CHARS = ['€', 'ü', 'ß', 'Ω', '日', '¿', '§', '°', 'þ']
TRUNCATED = ['4', '16.', '*clef', '*k[f#', '*M3/', '*met(', '*xywh-1:1,2,3', '*M', '*MM', 'h', '4h', 'q', '4q', '*staffx',
             '*k[', '*xywh-', '8..', '*>', '*Tr', '*clefX2']
WRONG_ORDER_STRICT = ['c4', '#c4', 'r4', 'cc#8', '4c4', '.x', '-4c', '#4c', 'n4c']
TRAIL = ['4c!x', '4cI', '4c%', '*clefG2zz', '=1||zz', '4c 4e!', '4r|', '*M4/4,', '4ch', '=foo', '4c,', '*MM120x', '4c|',
         '*k[f#]zz', '4c-#', '4c#-', '4cc#n', '*clefG2 ', '=1!', '2r!', '.!', '*!', '4c=', '*staff1x', '*met(c)x']


@st.composite
def bases(draw):
    """a valid kern token whose grammar ends in an optional / repeatable element (so the parser always looks one symbol
    past it)"""
    x = draw(st.integers(0, 3))
    if x < 3:
        c = draw(G.kern_data_cells(null_weight=0, sigs=True))
        return c['t']
    return draw(G.barlines())['t']


@st.composite
def malformed(draw):
    """-> {'t': text, 'kind': unknown|truncated|order|trail, 'strict': bool}"""
    k = draw(st.sampled_from(['unknown', 'unknown', 'truncated', 'order', 'trail', 'trail']))
    if k == 'unknown':
        b = draw(bases())
        ch = draw(st.sampled_from(UNKNOWN_CHARS))
        i = draw(st.integers(0, len(b)))
        return {'t': b[:i] + ch + b[i:], 'kind': k, 'strict': True}
    if k == 'truncated':
        return {'t': draw(st.sampled_from(TRUNCATED)), 'kind': k, 'strict': True}
    if k == 'order':
        return {'t': draw(st.sampled_from(WRONG_ORDER_STRICT)), 'kind': k, 'strict': True}
    x = draw(st.integers(0, 2))
    if x == 0:
        return {'t': draw(st.sampled_from(TRAIL)), 'kind': k, 'strict': False}
    # a generated complete token + a character that cannot extend it
    c = draw(st.one_of(G.kern_data_cells(null_weight=0), G.clefs(), G.timesigs(), G.keysigs(), G.barlines()))
    g = draw(st.sampled_from(['!', '|', ',', '%', 'h', 'z', 'H', '=', '+', '!!x', ' ']))
    return {'t': c['t'] + g, 'kind': k, 'strict': False}
