"""Independent pitch / interval / staff-position model.  No table of kernpy is read here."""
LETTERS = 'CDEFGAB'
SEMI = [0, 2, 4, 5, 7, 9, 11]
PERFECT = (1, 4, 5)

INTERVAL_NAMES = (['octave'] +
                  [q + str(n) for n in (1, 4, 5) for q in ('dd', 'd', 'P', 'A', 'AA')] +
                  [q + str(n) for n in (2, 3, 6, 7) for q in ('dd', 'd', 'm', 'M', 'A', 'AA')])
assert len(INTERVAL_NAMES) == 40 and len(set(INTERVAL_NAMES)) == 40


def interval(name):
    """name -> (diatonic steps, semitones)."""
    if name == 'octave':
        return 7, 12
    q = name.rstrip('0123456789')
    num = int(name[len(q):])
    steps = num - 1
    if num in PERFECT:
        adj = {'dd': -2, 'd': -1, 'P': 0, 'A': 1, 'AA': 2}[q]
    else:
        adj = {'dd': -3, 'd': -2, 'm': -1, 'M': 0, 'A': 1, 'AA': 2}[q]
    return steps, SEMI[steps] + adj


def kern_letters(letter_idx, octave):
    """Humdrum letters of a pitch: c = octave 4, cc = 5, C = 3, CC = 2."""
    L = LETTERS[letter_idx]
    return L.lower() * (octave - 3) if octave >= 4 else L * (4 - octave)


def spell(letter_idx, alt, octave):
    return kern_letters(letter_idx, octave) + ('#' * alt if alt > 0 else '-' * (-alt))


def parse_letters(s):
    """'cc' -> (letter index, octave)."""
    L = s[0]
    n = len(s)
    assert s == L * n and L.upper() in LETTERS, s
    octave = 3 + n if L.islower() else 4 - n
    return LETTERS.index(L.upper()), octave


def transpose(letter_idx, alt, octave, name, direction):
    """-> (letter, alt, octave) of the transposed pitch (alt may be outside -2..2 = not spellable with two accidentals)."""
    steps, semis = interval(name)
    sg = 1 if direction == 'up' else -1
    d1 = octave * 7 + letter_idx + sg * steps
    s1 = octave * 12 + SEMI[letter_idx] + alt + sg * semis
    o1, l1 = divmod(d1, 7)
    alt1 = s1 - (o1 * 12 + SEMI[l1])
    return l1, alt1, o1


def diatonic(letter_idx, octave):
    return octave * 7 + letter_idx


def from_diatonic(dn):
    o, l = divmod(dn, 7)
    return l, o


def agnostic_letters(letter_idx, octave, bottom_letter_idx, bottom_octave):
    """Humdrum letters of the pitch that occupies, under a G2 clef (bottom line e4), the staff position that
    (letter, octave) occupies under a clef whose bottom line is (bottom_letter, bottom_octave)."""
    dn = diatonic(letter_idx, octave) - diatonic(bottom_letter_idx, bottom_octave) + diatonic(2, 4)
    l, o = from_diatonic(dn)
    return kern_letters(l, o)
