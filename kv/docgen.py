"""Hypothesis strategies for abstract Humdrum documents (construction only; the spine-path state is tracked while
generating so that every row is legal, and re-derived independently by kv.spine when checking)."""
from hypothesis import strategies as st

from . import grammar as G

KERN = '**kern'
ALL_TYPES = ['**kern', '**text', '**dynam', '**dyn', '**harm', '**mxhm', '**fing', '**root']

DEFAULT = dict(
    types=ALL_TYPES, min_spines=1, max_spines=4, kern_weight=3, comments=True, global_comments=True, splits=True,
    partial_term=True, chords=True, acc=True, sigs=True, grace=True, rest_in_chord=True, sep_chars=False,
    signatures=True, supported_clefs_only=False, others=True, force_clef=False, min_body=1, max_body=10, max_sub=3, max_width=7,
    barlines=True, final_barline=True, numbered_bars=False, null_weight=2, interp_rows=True, rule_iv=True,
    sig_in_split=False, adjacent_joins=True, ext_sigs=False, force_kern=True, hidden_bars=False,
    chord_optional_dur=False,
)

PROFILES = {
    'full': {},
    'agnostic': dict(force_clef=True, supported_clefs_only=True, sig_in_split=True),
    'kernonly': dict(types=['**kern']),
    'damage': dict(),
    'sep': dict(sep_chars=True),
    'chordrest': dict(rule_iv=False),
}


def profile(name, **over):
    p = dict(DEFAULT)
    p.update(PROFILES.get(name, {}))
    p.update(over)
    p['name'] = name
    return p


class _Paths:
    """generator-side spine-path state: list of spine indexes, one per live path"""

    def __init__(self, types):
        self.types = types
        self.sp = list(range(len(types)))

    def typ(self, k):
        return self.types[self.sp[k]]


def _row(cells):
    return {'c': cells}


@st.composite
def _types(draw, P):
    n = draw(st.integers(P['min_spines'], P['max_spines']))
    pool = P['types']
    out = []
    for i in range(n):
        if KERN in pool and (len(pool) == 1 or draw(st.integers(0, P['kern_weight'] + 1)) > 1):
            out.append(KERN)
        else:
            out.append(draw(st.sampled_from(pool)))
    if KERN in pool and KERN not in out and P.get('force_kern', True):
        out[draw(st.integers(0, n - 1))] = KERN
    return out


def _data_cell(draw, P, typ):
    if typ == KERN:
        return draw(G.kern_data_cells(chords=P['chords'], acc=P['acc'], sigs=P['sigs'], grace=P['grace'],
                                      rest_in_chord=P['rest_in_chord'], null_weight=P['null_weight'],
                                      rule_iv=P['rule_iv'], ext=P['ext_sigs'], chord_optional_dur=P['chord_optional_dur']))
    return draw(G.other_data_cells(typ, sep_chars=P['sep_chars']))


def _interp_cell(draw, P, typ):
    if typ == KERN:
        return draw(G.kern_interps(signatures=P['signatures'], supported_clefs_only=P['supported_clefs_only'],
                                   others=P['others']))
    if typ == '**root':
        return draw(G.kern_interps(signatures=P['signatures'], supported_clefs_only=P['supported_clefs_only'],
                                   others=P['others']))
    return draw(G.other_interps(typ, supported_clefs_only=P['supported_clefs_only'])) if P['others'] else G.nullinterp_cell()


def _split_row(draw, P, paths):
    cands = [k for k in range(len(paths.sp)) if paths.sp.count(paths.sp[k]) < P['max_sub']]
    if not cands or len(paths.sp) >= P['max_width']:
        return None
    chosen = {draw(st.sampled_from(cands))}
    if len(cands) > 1 and draw(st.integers(0, 3)) == 0:
        k2 = draw(st.sampled_from(cands))
        if paths.sp.count(paths.sp[k2]) + (1 if paths.sp[k2] in [paths.sp[c] for c in chosen] else 0) < P['max_sub']:
            chosen.add(k2)
    cells, new = [], []
    for k, s in enumerate(paths.sp):
        if k in chosen:
            cells.append(G.op_cell('*^'))
            new += [s, s]
        else:
            cells.append(G.nullinterp_cell())
            new.append(s)
    paths.sp = new
    return _row(cells)


def _runs(sp):
    runs, j = [], 0
    while j < len(sp):
        e = j
        while e + 1 < len(sp) and sp[e + 1] == sp[j]:
            e += 1
        if e > j:
            runs.append((j, e))
        j = e + 1
    return runs


def _join_row(draw, P, paths):
    runs = _runs(paths.sp)
    if not runs:
        return None
    # one run always, every further run (of another spine) with probability 1/2: several joins on one line
    first = draw(st.sampled_from(runs))
    chosen = []
    for r in runs:
        if r == first or draw(st.booleans()):
            a, b = r
            if not P.get('adjacent_joins', True) and r != first and any(a == cb + 1 or b == ca - 1 for ca, cb in chosen + [first]):
                continue  # two join groups side by side are ambiguous for a text-level reader
            if b - a >= 2 and draw(st.booleans()):
                if draw(st.booleans()):
                    a += 1
                else:
                    b -= 1
            chosen.append((a, b))
    cells, new = [], []
    for k, s in enumerate(paths.sp):
        run = next(((a, b) for a, b in chosen if a <= k <= b), None)
        if run:
            cells.append(G.op_cell('*v'))
            if k == run[0]:
                new.append(s)
        else:
            cells.append(G.nullinterp_cell())
            new.append(s)
    paths.sp = new
    return _row(cells)


def _mixed_row(draw, P, paths):
    """ONE row that joins a run of sub-spines and splits another path ('*v *v *^'): joining two and splitting one leaves the
    number of columns as it was while the spine boundaries move"""
    runs = _runs(paths.sp)
    if not runs:
        return None
    a, b = draw(st.sampled_from(runs))
    if b - a >= 2 and draw(st.booleans()):
        b = a + 1
    cands = [k for k in range(len(paths.sp)) if not a <= k <= b and paths.sp.count(paths.sp[k]) < P['max_sub']]
    if not cands or len(paths.sp) - (b - a) + 1 > P['max_width']:
        return None
    ksplit = draw(st.sampled_from(cands))
    cells, new = [], []
    for k, s in enumerate(paths.sp):
        if a <= k <= b:
            cells.append(G.op_cell('*v'))
            if k == a:
                new.append(s)
        elif k == ksplit:
            cells.append(G.op_cell('*^'))
            new += [s, s]
        else:
            cells.append(G.nullinterp_cell())
            new.append(s)
    paths.sp = new
    return _row(cells)


def _term_row(draw, P, paths):
    if len(paths.sp) < 2:
        return None
    if draw(st.booleans()):
        # a whole spine (all its sub-spines)
        spines = sorted(set(paths.sp))
        if len(spines) < 2:
            return None
        s0 = draw(st.sampled_from(spines))
        kill = {k for k, s in enumerate(paths.sp) if s == s0}
    else:
        kill = {draw(st.integers(0, len(paths.sp) - 1))}
    cells, new = [], []
    for k, s in enumerate(paths.sp):
        if k in kill:
            cells.append(G.op_cell('*-'))
        else:
            cells.append(G.nullinterp_cell())
            new.append(s)
    if not new:
        return None
    paths.sp = new
    return _row(cells)


def _event(draw, P, paths, rows, state):
    """append one body event"""
    x = draw(st.integers(0, 20))
    n = len(paths.sp)
    if x == 20 and P['splits'] and P['max_sub'] >= 3:
        # a spine split twice and all three sub-spines joined again on ONE line
        ks = [k for k in range(n) if paths.sp.count(paths.sp[k]) == 1]
        if ks and len(paths.sp) + 2 <= P['max_width']:
            k = draw(st.sampled_from(ks))
            for step in range(2):
                kk = k + (draw(st.integers(0, 1)) if step else 0)
                cells, new = [], []
                for j, s_ in enumerate(paths.sp):
                    if j == kk:
                        cells.append(G.op_cell('*^'))
                        new += [s_, s_]
                    else:
                        cells.append(G.nullinterp_cell())
                        new.append(s_)
                paths.sp = new
                rows.append(_row(cells))
                rows.append(_row([_data_cell(draw, P, paths.typ(j)) for j in range(len(paths.sp))]))
            sp = paths.sp[k]
            cells, new = [], []
            for j, s_ in enumerate(paths.sp):
                if s_ == sp:
                    cells.append(G.op_cell('*v'))
                    if j == k:
                        new.append(s_)
                else:
                    cells.append(G.nullinterp_cell())
                    new.append(s_)
            paths.sp = new
            rows.append(_row(cells))
            rows.append(_row([_data_cell(draw, P, paths.typ(j)) for j in range(len(paths.sp))]))
            return
        x = 0
    if x < 9:
        rows.append(_row([_data_cell(draw, P, paths.typ(k)) for k in range(n)]))
    elif x < 11 and P['barlines']:
        state['bars'] += 1
        b = draw(G.barlines(number=state['bars'] if P['numbered_bars'] else None, hidden=P['hidden_bars']))
        cells = [dict(b) for _ in range(n)]
        if P['hidden_bars'] and not b.get('hidden') and draw(st.integers(0, 3)) == 0:
            # the same barline, invisible in some of the spines only
            for c in cells:
                if draw(st.integers(0, 2)) == 0:
                    i = len(c['t']) - len(c['t'].lstrip('='))
                    j = i
                    while j < len(c['t']) and c['t'][j].isdigit():
                        j += 1
                    c['t'] = c['t'][:j] + '-' + c['t'][j:]
                    c['hidden'] = True
        rows.append(_row(cells))
    elif x < 13 and P['interp_rows']:
        rows.append(_row([_interp_cell(draw, P, paths.typ(k)) for k in range(n)]))
    elif x == 13 and P['comments']:
        rows.append(_row([draw(G.field_comments(sep_chars=P['sep_chars'])) for _ in range(n)]))
    elif x == 14 and P['global_comments']:
        rows.append({'g': draw(G.global_comments(sep_chars=P['sep_chars']))})
    elif x in (15, 16) and P['splits']:
        r = _split_row(draw, P, paths)
        if r:
            rows.append(r)
            rows.append(_row([_data_cell(draw, P, paths.typ(k)) for k in range(len(paths.sp))]))
            if P['sig_in_split'] and draw(st.booleans()):
                # a signature change inside the freshly opened sub-spines, then more data
                cells = []
                for k in range(len(paths.sp)):
                    if paths.typ(k) in (KERN, '**root') and paths.sp.count(paths.sp[k]) > 1 and draw(st.booleans()):
                        cells.append(draw(G.clefs(supported_only=P['supported_clefs_only'])))
                    else:
                        cells.append(G.nullinterp_cell())
                if any(c['k'] == 'interp' for c in cells):
                    rows.append(_row(cells))
                    rows.append(_row([_data_cell(draw, P, paths.typ(k)) for k in range(len(paths.sp))]))
                    if draw(st.booleans()):
                        # join again right away: the notes that follow are governed by the FIRST sub-spine's new clef
                        r2 = _join_row(draw, P, paths)
                        if r2:
                            rows.append(r2)
                            rows.append(_row([_data_cell(draw, P, paths.typ(k)) for k in range(len(paths.sp))]))
    elif x in (17, 18) and P['splits']:
        r = _mixed_row(draw, P, paths) if P.get('mixed_op_rows', True) and draw(st.integers(0, 2)) == 0 else None
        if r:
            rows.append(r)
            rows.append(_row([_data_cell(draw, P, paths.typ(k)) for k in range(len(paths.sp))]))
            return
        r = _join_row(draw, P, paths)
        if r:
            rows.append(r)
        else:  # nothing to join yet: open a split and (usually) close it again a row later
            r = _split_row(draw, P, paths)
            if r:
                rows.append(r)
                rows.append(_row([_data_cell(draw, P, paths.typ(k)) for k in range(len(paths.sp))]))
                if draw(st.integers(0, 2)):
                    r2 = _join_row(draw, P, paths)
                    if r2:
                        rows.append(r2)
    elif x == 19 and P['partial_term']:
        r = _term_row(draw, P, paths)
        if r:
            rows.append(r)
    else:
        rows.append(_row([_data_cell(draw, P, paths.typ(k)) for k in range(n)]))


@st.composite
def documents(draw, P):
    types = draw(_types(P))
    rows = []
    if P['global_comments']:
        for _ in range(draw(st.sampled_from([0, 0, 0, 1, 2]))):
            rows.append({'g': draw(G.global_comments(sep_chars=P['sep_chars']))})
    rows.append(_row([G.header_cell(t) for t in types]))
    paths = _Paths(types)
    if P['force_clef']:
        rows.append(_row([draw(G.clefs(supported_only=True)) if t in (KERN, '**root') else G.nullinterp_cell() for t in types]))
    if P['interp_rows']:
        for _ in range(draw(st.integers(0, 3))):
            rows.append(_row([_interp_cell(draw, P, paths.typ(k)) for k in range(len(paths.sp))]))
    state = {'bars': 0}
    for _ in range(draw(st.integers(P['min_body'], max(P['min_body'], P['max_body'])))):
        _event(draw, P, paths, rows, state)
    if P['final_barline'] and P['barlines'] and draw(st.integers(0, 2)):
        rows.append(_row([{'k': 'bar', 't': '==', 'e': '==', 'cat': 'BARLINES'} for _ in paths.sp]))
    rows.append(_row([G.op_cell('*-') for _ in paths.sp]))
    if P['global_comments']:
        for _ in range(draw(st.sampled_from([0, 0, 0, 1]))):
            rows.append({'g': draw(G.global_comments(sep_chars=P['sep_chars']))})
    # the same word under two spine types (the syllable 'I' and the roman numeral 'I', 'f' as lyric and as dynamic mark):
    # a later cell takes the text of an earlier cell of another category
    texts = [c for r in rows if 'c' in r for c in r['c'] if c['k'] == 'text']
    if len({c['cat'] for c in texts}) >= 2 and draw(st.integers(0, 2)) == 0:
        first = texts[0]
        other = next((c for c in texts[1:] if c['cat'] != first['cat']), None)
        if other is not None:
            other['t'] = other['e'] = first['t']
    return {'types': types, 'rows': rows, 'profile': P['name']}


# ---------------------------------------------------------------------------------------------------------------------
# scores organised in measures (C07, C08, C19)
MEASURE_DEFAULT = dict(
    max_spines=3, others=False, other_types=['**text', '**dynam', '**harm'], splits=True, rejoin_before_bar=True,
    sig_changes=False, same_sig_kinds=True, max_measures=6, chords=True, comments=True, tandems=True,
    split_across_bar=False, hidden_bars=True, sig_after_bar=False, quiet_spines=False, partial_term=False,
)


def mprofile(**over):
    p = dict(MEASURE_DEFAULT)
    p.update(over)
    return p


_SIMPLE_NOTE = dict(chords=True, acc=True, sigs=True, grace=False, rest_in_chord=False, null_weight=2)


@st.composite
def measure_documents(draw, MP):
    """kern score: preamble (signatures), optional pick-up, measures opened by barline rows, optional final barline."""
    nk = draw(st.integers(1, MP['max_spines']))
    types = [KERN] * nk
    if MP['others']:
        for _ in range(draw(st.integers(0, 2))):
            types.insert(draw(st.integers(0, len(types))), draw(st.sampled_from(MP['other_types'])))
    paths = _Paths(types)
    rows = [_row([G.header_cell(t) for t in types])]
    P = profile('full', **_SIMPLE_NOTE)

    def width():
        return len(paths.sp)

    def sig_row(kind, same_for_all=True):
        strat = {'clef': G.clefs(supported_only=True), 'key': G.keysigs(), 'time': G.timesigs(), 'meter': G.meters()}[kind]
        shared = draw(strat) if kind in ('time', 'meter') else None
        cells = []
        for k in range(width()):
            if paths.typ(k) == KERN:
                cells.append(dict(shared) if shared else draw(strat))
            else:
                cells.append(G.nullinterp_cell())
        return _row(cells)

    # preamble: the same signature kinds on every kern spine
    rows.append(sig_row('clef'))
    kinds = [k for k in ('key', 'time', 'meter') if draw(st.integers(0, 2))]
    pre = [sig_row(kd) for kd in kinds]
    if MP['tandems'] and draw(st.integers(0, 2)) == 0:
        # a tandem row somewhere in the opening block; some spines may only have a null interpretation there (kernpy
        # then starts its measure 1 inside the opening block)
        t = draw(st.sampled_from(['*MM120', '*C:', '*staff1', '*Ipiano', '*I"Cello']))
        cells = [{'k': 'interp', 't': t, 'e': t, 'cat': None} if paths.typ(k) == KERN and draw(st.integers(0, 2))
                 else G.nullinterp_cell() for k in range(width())]
        if any(c['k'] == 'interp' for c in cells):
            pre.insert(draw(st.integers(0, len(pre))), _row(cells))
    rows.extend(pre)

    quiet = [None]  # spine that only holds null tokens in the current measure (quiet_spines)
    hide_next = [False]  # the next barline is invisible (so that a measure can END on a spine-operator row)

    def data_row(force_note=False):
        cells = [_data_cell(draw, P, paths.typ(k)) if paths.sp[k] != quiet[0] else G.null_cell() for k in range(width())]
        if all(c['k'] in ('null',) for c in cells) or (force_note and all(c['k'] == 'null' for c, k in zip(cells, range(width())) if paths.typ(k) == KERN)):
            # at least one sounding cell (note, rest or chord) in a kern spine
            ks = [k for k in range(width()) if paths.typ(k) == KERN and paths.sp[k] != quiet[0]]
            k0 = draw(st.sampled_from(ks))
            cells[k0] = draw(G.kern_data_cells(null_weight=0, sigs=False, grace=False, rest_in_chord=False))
        return _row(cells)

    pickup = draw(st.integers(0, 3)) == 0
    if pickup:
        style = draw(st.sampled_from(['any', 'any', 'chords', 'rests']))
        for _ in range(draw(st.integers(1, 2))):
            r = data_row(force_note=True)
            if style != 'any':
                # a pick-up that consists of chords only / rests only (plus nulls) in every kern spine
                for k, c in enumerate(r['c']):
                    if paths.typ(k) == KERN and c['k'] != 'null':
                        if style == 'rests':
                            n = draw(G.rests(sigs=False))
                            r['c'][k] = G.note_cell_from([n], [[]])
                        else:
                            ns = [draw(G.notes(acc=False, sigs=False, grace=False, optional_dur=False)) for _ in range(2)]
                            r['c'][k] = G.note_cell_from(ns, [[], []])
            rows.append(r)
    nm = draw(st.integers(1, MP['max_measures']))
    barno = 0
    open_split = False
    if MP['splits'] and not pickup and width() >= 2 and draw(st.integers(0, 5)) == 0:
        # the score opens with a split: no barline and no data before the spine-operator row
        SP = profile('full', max_sub=3, max_width=7, adjacent_joins=False)
        r = _split_row(draw, SP, paths)
        if r is not None:
            rows.append(r)
            rows.append(data_row(force_note=True))
            pickup = True
            if MP['rejoin_before_bar'] or draw(st.booleans()):
                while _runs(paths.sp):
                    rows.append(_join_row(draw, SP, paths))
            else:
                open_split = True
    for m in range(nm):
        barno += 1
        b = draw(G.barlines(number=barno, hidden=MP['hidden_bars'], force_hidden=MP['hidden_bars'] and hide_next[0]))
        hide_next[0] = False
        rows.append(_row([dict(b) for _ in range(width())]))
        quiet[0] = None
        live_kern = sorted({paths.sp[k] for k in range(width()) if paths.typ(k) == KERN})
        if MP['quiet_spines'] and len(live_kern) >= 2 and not open_split and draw(st.integers(0, 2)) == 0:
            quiet[0] = draw(st.sampled_from(live_kern))
        if MP['sig_after_bar'] and draw(st.integers(0, 2)) == 0:
            # a signature change directly after the barline (clefs twice as often as the others)
            kind = draw(st.sampled_from(['clef', 'clef', 'key', 'time', 'meter']))
            strat = {'clef': G.clefs(supported_only=True), 'key': G.keysigs(), 'time': G.timesigs(), 'meter': G.meters()}[kind]
            cells = [draw(strat) if paths.typ(k) == KERN and draw(st.integers(0, 2)) else G.nullinterp_cell() for k in range(width())]
            if any(c['k'] == 'interp' for c in cells):
                rows.append(_row(cells))
        for _ in range(draw(st.integers(0, 3))):
            x = draw(st.integers(0, 11))
            kern_cols = [k for k in range(width()) if paths.typ(k) == KERN]
            if x == 11 and MP['splits'] and not open_split and len(paths.sp) == len(types) and len(kern_cols) >= 3:
                # two spines that are not neighbours are split on one line and re-joined on one line (two join groups)
                a_, b_ = kern_cols[0], kern_cols[-1]
                cells, new = [], []
                for k, s_ in enumerate(paths.sp):
                    if k in (a_, b_):
                        cells.append(G.op_cell('*^'))
                        new += [s_, s_]
                    else:
                        cells.append(G.nullinterp_cell())
                        new.append(s_)
                paths.sp = new
                rows.append(_row(cells))
                rows.append(data_row())
                cells, new, seen = [], [], set()
                for k, s_ in enumerate(paths.sp):
                    if paths.sp.count(s_) > 1:
                        cells.append(G.op_cell('*v'))
                        if s_ not in seen:
                            new.append(s_)
                            seen.add(s_)
                    else:
                        cells.append(G.nullinterp_cell())
                        new.append(s_)
                paths.sp = new
                rows.append(_row(cells))
                continue
            if x < 2 and MP['splits'] and not open_split:
                SP = profile('full', max_sub=3, max_width=7, adjacent_joins=False)
                r = _split_row(draw, SP, paths)
                if r is None:
                    continue
                rows.append(r)
                rows.append(data_row())
                if draw(st.integers(0, 2)) == 0:
                    r2 = _split_row(draw, SP, paths)  # a second split, possibly nested in one of the new sub-spines
                    if r2:
                        rows.append(r2)
                        rows.append(data_row())
                if MP['sig_changes'] and draw(st.booleans()):
                    cells = []
                    for k in range(width()):
                        cells.append(draw(G.clefs(supported_only=True)) if paths.typ(k) == KERN and draw(st.booleans())
                                     else G.nullinterp_cell())
                    if any(c['k'] == 'interp' for c in cells):
                        rows.append(_row(cells))
                        rows.append(data_row())
                if MP['rejoin_before_bar'] or draw(st.booleans()):
                    # re-join everything before the barline, in whatever grouping (pairwise, three-way, several per row)
                    while _runs(paths.sp):
                        rows.append(_join_row(draw, SP, paths))
                        if _runs(paths.sp) and draw(st.integers(0, 2)) == 0:
                            rows.append(data_row())
                else:
                    open_split = True
            elif x < 4 and MP['sig_changes']:
                kind = draw(st.sampled_from(['clef', 'key', 'time', 'meter']))
                strat = {'clef': G.clefs(supported_only=True), 'key': G.keysigs(), 'time': G.timesigs(), 'meter': G.meters()}[kind]
                cells = []
                for k in range(width()):
                    if paths.typ(k) == KERN and (not MP['same_sig_kinds'] or True) and draw(st.integers(0, 2)):
                        cells.append(draw(strat))
                    else:
                        cells.append(G.nullinterp_cell())
                if any(c['k'] == 'interp' for c in cells):
                    rows.append(_row(cells))
            elif x == 10 and MP['partial_term'] and not open_split and len(set(paths.sp)) >= 2 and len(paths.sp) == len(set(paths.sp)) \
                    and sum(1 for k in range(width()) if paths.typ(k) == KERN) >= 2:
                # one spine ends early (at most down to one remaining **kern spine); the others go on
                ks = [k for k in range(width()) if paths.typ(k) == KERN]
                k0 = draw(st.sampled_from(ks))
                if quiet[0] == paths.sp[k0]:
                    quiet[0] = None
                rows.append(_row([G.op_cell('*-') if k == k0 else G.nullinterp_cell() for k in range(width())]))
                paths.sp = [s_ for k, s_ in enumerate(paths.sp) if k != k0]
                if draw(st.booleans()):
                    hide_next[0] = draw(st.booleans())
                    break  # the terminating row is the last row of its measure
            elif x == 4 and MP['comments']:
                rows.append(_row([draw(G.field_comments()) for _ in range(width())]))
            elif x == 5 and MP['tandems']:
                t = draw(st.sampled_from(['*MM96', '*>A', '*ped', '*Xped', '*8va']))
                rows.append(_row([{'k': 'interp', 't': t, 'e': t, 'cat': None} if paths.typ(k) == KERN else G.nullinterp_cell()
                                  for k in range(width())]))
            else:
                rows.append(data_row())
        if open_split and (m == nm - 1 or draw(st.booleans())):
            while _runs(paths.sp):
                rows.append(_join_row(draw, profile('full', adjacent_joins=False), paths))
            open_split = False
    final = draw(st.integers(0, 2)) > 0
    if final:
        rows.append(_row([{'k': 'bar', 't': '==', 'e': '==', 'cat': 'BARLINES'} for _ in range(width())]))
    rows.append(_row([G.op_cell('*-') for _ in range(width())]))
    return {'types': types, 'rows': rows, 'profile': 'measures', 'pickup': pickup, 'final_barline': final}


@st.composite
def with_global_comments(draw, doc):
    """the same score with one to three global comment / reference lines ('!! ...') between its rows - they are not
    cells, so every position after the header is legal; half of them go directly after a barline row"""
    rows = doc['rows']
    for _ in range(draw(st.integers(1, 3))):
        bars = [i for i, r in enumerate(rows) if 'c' in r and r['c'][0]['k'] == 'bar']
        if bars and draw(st.booleans()):
            pos = draw(st.sampled_from(bars)) + 1
        else:
            pos = draw(st.integers(1, len(rows)))
        rows.insert(pos, {'g': draw(G.global_comments())})
    doc['global_comments'] = True
    return doc


@st.composite
def with_late_signatures(draw, doc):
    """the same score in which ONE **kern spine states its opening signatures late: its cells in the opening block become
    null interpretations and the signatures follow, one row each, after a later row of the score (a part that rests, or
    plays, before its clef / key / meter are given).  Only for scores without early-ending spines."""
    rows = doc['rows']
    W = len(doc['types'])
    pre = []
    i = 1
    while i < len(rows) and 'c' in rows[i] and all(c['k'] in ('interp', 'nullinterp') for c in rows[i]['c']):
        if any(c.get('sig') for c in rows[i]['c']):
            pre.append(i)
        i += 1
    ks = [k for k, t in enumerate(doc['types']) if t == KERN]
    later = [j for j in range(i, len(rows) - 1) if 'c' in rows[j] and len(rows[j]['c']) == W
             and 'c' in rows[j + 1] and len(rows[j + 1]['c']) == W
             and not any(c['k'] == 'op' for c in rows[j]['c']) and not any(c['t'] == '*v' for c in rows[j + 1]['c'])]
    if not pre or not ks or not later:
        return doc
    k = draw(st.sampled_from(ks))
    moved = []
    for r in pre:
        c = rows[r]['c'][k]
        if c.get('sig'):
            moved.append(c)
            rows[r]['c'][k] = G.nullinterp_cell()
    j = draw(st.sampled_from(later))
    for n_, c in enumerate(moved):
        rows.insert(j + 1 + n_, _row([c if kk == k else G.nullinterp_cell() for kk in range(W)]))
    doc['late_signatures'] = True
    return doc


def long_document(nrows=1300, seed=1, with_text=True):
    """a plain but LONG score (one **kern spine of notes without accidentals, rests and barlines, optionally a **text
    spine): depth of the spine tree == number of rows, which random documents never reach"""
    types = [KERN] + (['**text'] if with_text else [])
    rows = [_row([G.header_cell(t) for t in types])]
    rows.append(_row([{'k': 'interp', 't': '*clefG2', 'e': '*clefG2', 'cat': 'CLEF', 'sig': 'clef'}] + [G.nullinterp_cell() for _ in types[1:]]))
    letters = 'cdefgab'
    for i in range(nrows):
        if i % 9 == 8:
            b = {'k': 'bar', 't': '=%d' % (i // 9 + 1), 'e': '=', 'cat': 'BARLINES'}
            rows.append(_row([dict(b) for _ in types]))
            continue
        j = (i * 7 + seed) % 23
        if j == 0:
            n = {'dur': ['4'], 'p': 'r', 'acc': '', 'sigs': []}
        else:
            L = letters[(i + seed) % 7]
            n = {'dur': [['4'], ['8'], ['2', '.'], ['16']][i % 4], 'p': (L if j % 2 else L.upper()) * (1 + j % 3), 'acc': '', 'sigs': [['L'], [], ['J'], [';']][(i // 3) % 4]}
        cells = [G.note_cell_from([n], [None])]
        cells[0]['lay'] = [[[s_, 'post'] for s_ in n['sigs']]]
        for _ in types[1:]:
            cells.append({'k': 'text', 't': 'la%d' % i, 'e': 'la%d' % i, 'cat': 'LYRICS'} if i % 2 else G.null_cell())
        rows.append(_row(cells))
    rows.append(_row([G.op_cell('*-') for _ in types]))
    return {'types': types, 'rows': rows, 'profile': 'long'}
