"""Measure model shared by C07, C08, C19: boundaries from barline rows (+ pick-up), ranges, expected lines."""
from . import kdoc as K, spine as S
from .common import Bad

DATA_KINDS = ('note', 'rest', 'chord', 'null', 'text')


def boundaries(doc, lenient=False):
    """row indexes at which measures start.  strict: a pick-up measure starts at the first row that holds a data cell
    (note / rest / chord / '.') before the first barline row.  lenient (kernpy's numbering): also a null interpretation
    '*' counts, because kernpy files EMPTY under CORE."""
    B = []
    seen_bar = False
    for i, row in enumerate(doc['rows']):
        if 'c' not in row:
            continue
        kinds = {c['k'] for c in row['c']}
        if 'bar' in kinds:
            B.append(i)
            seen_bar = True
        elif not seen_bar and not B:
            if kinds & set(DATA_KINDS) or (lenient and 'nullinterp' in kinds):
                B.append(i)
    return B


def choose_numbering(doc, kdoc):
    """-> (B, label).  The property's clauses are checked under the numbering kernpy uses, provided it is one of the two
    readings above; anything else is a violation."""
    try:
        M = kdoc.measures_count()
    except Exception as e:  # noqa
        raise Bad('measures-count-raised', f'measures_count() raised {e!r}')
    Bs = boundaries(doc, False)
    if len(Bs) == M and Bs == boundaries(doc, True):
        return Bs, 'strict'
    Bl = boundaries(doc, True)
    if len(Bl) == M:
        return Bl, ('phantom-measure' if Bl != Bs else 'strict')
    raise Bad('measure-count', f'measures_count() = {M}, the score has {len(Bs)} measures (barline rows + pick-up)')


def is_interp_line(cells):
    return cells[0].startswith('*')


def aligned_full(doc, kdoc, a, kern_only_types=None, **kw):
    """full export (optionally projected to **kern) -> [(abstract row index, [cell texts])]"""
    types = doc['types']
    full = K.grid(K.dumps(kdoc, **kw))
    rows = []
    for ri, cells in K.expected_rows(doc):
        if kern_only_types is not None:
            keep = [c for c, sp in zip(cells, a.spines[ri]) if types[sp] in kern_only_types]
            if not keep or all(c['k'] in ('null', 'nullinterp') for c in keep):
                continue
        rows.append(ri)
    if len(rows) != len(full):
        raise Bad('alignment', f'full export has {len(full)} rows, model expects {len(rows)} (C03/C06)')
    return list(zip(rows, full))


def range_rows(B, a, b, nrows):
    lo = B[a - 1]
    hi = B[b] if b < len(B) else nrows
    return lo, hi
