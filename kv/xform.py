"""The three single-option text transformations of the exporter, written independently over an aligned cell grid:

    P  spine projection        (C06)
    F  category filter         (C05)
    T  encoding                (C04, C10)

The starting point is E0 = dumps(doc, encoding=eKern) aligned with the abstract document (C03 guarantees the
alignment: same rows minus global comments and all-null rows, same columns).  Every cell of the aligned grid carries the
generator's descriptor, its spine index and the clef in force (from kv.spine), so the transformations need nothing from
kernpy except - for cells whose category the documentation does not pin (descriptor 'cat' is None) - the category
kernpy itself assigned to the token.
"""
import copy

import kernpy as kp

from . import cats, kdoc as K, pitch as M, spine as S
from .common import Bad

AGNOSTIC = ('akern', 'aekern')
BASIC = ('bkern', 'bekern')
PLAIN = ('kern', 'bkern', 'akern')
SIGNATURE_CATS = ('CLEF', 'TIME_SIGNATURE', 'METER_SYMBOL', 'KEY_SIGNATURE', 'KEY_TOKEN', 'SIGNATURES')


def bottom_line(clef_text):
    b = kp.ClefFactory.create_clef(clef_text).bottom_line()
    return M.LETTERS.index(b.name[0]), b.octave


def agnostic_letters(p, clef_text):
    l, o = M.parse_letters(p)
    bl, bo = bottom_line(clef_text)
    return M.agnostic_letters(l, o, bl, bo)


def aligned(doc, kdoc, a=None):
    """-> list of rows; row = list of cell dicts {'kind','sp','cat','text','members','type','clef','pos'}"""
    a = a or S.analyze(doc)
    e0 = K.grid(K.dumps(kdoc, encoding=kp.Encoding.eKern))
    exp = K.expected_rows(doc)
    if len(e0) != len(exp):
        raise Bad('alignment', f'eKern export has {len(e0)} rows, document has {len(exp)} non-null rows (C03)')
    clef = K.clef_in_force(doc, a)
    # stage index of every abstract row (one stage per non-empty line, stage 0 is the root)
    rows = []
    for g, (ri, cells) in zip(e0, exp):
        if len(g) != len(cells):
            raise Bad('alignment', f'row {ri}: {len(g)} exported cells for {len(cells)} source cells (C03)')
        row = []
        for k, (text, c) in enumerate(zip(g, cells)):
            cat = c['cat']
            if cat is None:
                cat = kdoc.tree.stages[ri + 1][k].token.category.name
            cell = {'kind': c['k'], 'sp': a.spines[ri][k], 'cat': cat, 'text': text, 'pos': (ri, k),
                    'clef': clef.get((ri, k)), 'type': c['t'] if c['k'] == 'header' else None, 'chord_removed': False}
            if 'notes' in c:
                ms = text.split(' ')
                if len(ms) != len(c['notes']):
                    raise Bad('alignment', f'{c["t"]!r}: {len(ms)} exported chord members for {len(c["notes"])} (C03)')
                cell['members'] = []
                for m, n in zip(ms, c['notes']):
                    pds, decs = K.split_member(m)
                    cell['members'].append({'pds': [(p, K.lexcat(p)) for p in pds], 'decs': list(decs), 'note': n, 'agn': False})
            row.append(cell)
        rows.append(row)
    return rows


def P(rows, spine_ids=None, spine_types=None, types=None):
    out = []
    for row in rows:
        out.append([c for c in row
                    if (spine_ids is None or c['sp'] in spine_ids)
                    and (spine_types is None or types[c['sp']] in spine_types)])
    return out


def F(rows, selected):
    """selected: set of category names"""
    out = []
    for row in rows:
        nr = []
        for c in row:
            c = dict(c)
            if 'members' in c:
                if c['kind'] == 'chord' and 'CHORD' not in selected:
                    c['chord_removed'] = True
                c['members'] = [{'pds': [(p, cat) for p, cat in m['pds'] if cat in selected],
                                 'decs': list(m['decs']) if 'DECORATION' in selected else [],
                                 'note': m['note'], 'agn': m['agn']} for m in c['members']]
            else:
                if c['cat'] not in selected:
                    c['text'] = None
            nr.append(c)
        out.append(nr)
    return out


def T(rows, enc):
    out = []
    for row in rows:
        nr = []
        for c in row:
            c = dict(c)
            c['enc'] = enc
            nr.append(c)
        out.append(nr)
    return out


def _render_member(m, enc, clef):
    pds = list(m['pds'])
    decs = list(m['decs'])
    if enc in BASIC:
        decs = []
    if enc in AGNOSTIC:
        # kernpy glues the (converted) pitch and the alteration into one sub-part, placed after the durations
        new = []
        for p, cat in pds:
            if cat == 'PITCH':
                if clef is None:
                    raise Bad('no-clef', 'generator error: note without a clef in force in an agnostic export')
                p = agnostic_letters(p, clef)
            if cat in ('PITCH', 'ALTERATION'):
                if new and new[-1][1] == 'PGROUP':
                    new[-1][0] += p
                else:
                    new.append([p, 'PGROUP'])
            else:
                new.append([p, cat])
        pds = [(p, cat) for p, cat in new]
    s = K.join_member([p for p, _ in pds], decs)
    if enc in PLAIN:
        s = K.strip_sep(s)
    return s


def render(rows):
    """apply the pending encoding and produce the expected grid.  Entries: None = placeholder ('.' or '*' both
    accepted), ('cell', text) verbatim, ('note', text), ('chord', [text | None, ...])"""
    out = []
    for row in rows:
        er = []
        for c in row:
            enc = c.get('enc', 'ekern')
            if 'members' in c:
                if c['chord_removed']:
                    er.append(None)
                    continue
                ms = [_render_member(m, enc, c['clef']) for m in c['members']]
                if len(ms) == 1:
                    er.append(('note', ms[0]) if ms[0] != '' else None)
                else:
                    er.append(('chord', [m if m != '' else None for m in ms]))
            elif c['text'] is None:
                er.append(None)
            elif c['kind'] == 'header':
                er.append(('cell', '**' + K.PREFIX[enc] + c['type'][2:]))
            else:
                # text_by_enc: what kernpy itself writes for this (unfiltered) cell in that encoding - used by the
                # profiles that contain the separator characters in text (known finding KF-SEP), so that only a
                # DIFFERENCE between the filtered and the unfiltered export of a selected cell is reported
                er.append(('cell', c.get('text_by_enc', {}).get(enc, c['text'])))
        if er and not all(e is None or (e[0] == 'cell' and e[1] in K.NULLS) for e in er):
            out.append(er)
    return out


def _norm(x):
    return x.lstrip('·@')


def same(got_grid, exp):
    """compare kernpy's grid with render()'s output; returns None or a description of the first difference.  A leading
    separator of a note whose first sub-part was filtered out is ignored on both sides."""
    if len(got_grid) != len(exp):
        return f'{len(got_grid)} rows, expected {len(exp)}'
    for ri, (g, e) in enumerate(zip(got_grid, exp)):
        if len(g) != len(e):
            return f'row {ri}: {len(g)} cells, expected {len(e)}: {g}'
        for gc, ec in zip(g, e):
            if ec is None:
                if gc not in K.NULLS:
                    return f'row {ri}: {gc!r} where a placeholder was expected'
            elif ec[0] == 'chord':
                gm = gc.split(' ')
                if len(gm) != len(ec[1]):
                    return f'row {ri}: chord {gc!r} has {len(gm)} members, expected {len(ec[1])}'
                for x, y in zip(gm, ec[1]):
                    if y is None:
                        if x not in K.NULLS:
                            return f'row {ri}: chord member {x!r} where a placeholder was expected ({gc!r})'
                    elif _norm(x) != _norm(y):
                        return f'row {ri}: chord member {x!r}, expected {y!r} ({gc!r})'
            elif ec[0] == 'note':
                if _norm(gc) != _norm(ec[1]):
                    return f'row {ri}: note {gc!r}, expected {ec[1]!r}'
            elif gc != ec[1]:
                return f'row {ri}: cell {gc!r}, expected {ec[1]!r}'
    return None


def selected(include, exclude):
    return cats.selected(include, exclude)
