"""C09 - transposition is exact interval arithmetic.  Exhaustive grid against kv.pitch."""
import kernpy as kp

from .. import pitch as M
from ..common import Bad, Result, Problem

ID = 'C09'
LEVEL = 'exploration'
SHARDS_THOROUGH = 1
RULE = ('Exhaustive enumeration of 7 letters x 5 alterations (-2..+2) x octaves 0..8 x 40 interval names x 2 directions '
        '= 25,200 calls of kernpy.transpose, each compared with an independent letter/semitone model, plus the inverse, '
        'unison, octave and fourth+fifth laws on the same grid and the interval-name table.  A case is (pitch, '
        'interval, direction); it is non-trivial when the model result is spellable with <=2 accidentals and differs '
        'from the source spelling.  Both tiers enumerate the whole grid, once with fresh pitches and twice on a single '
        'AgnosticPitch object whose name/octave attributes are re-assigned between calls, and once more with the argument and / or the '
        'result written in the American notation (input_format / output_format of kernpy.transpose: "Bb3", "C##0"); thorough adds the AgnosticPitch-level API '
        '(transpose_agnostics) on the same grid.')
ASSUMPTIONS = ['kv/pitch.py (letter/semitone arithmetic, interval names from quality+number) is the reference',
               'results needing more than two accidentals are unconstrained (may raise or return anything), as the property says']


def _tr(s, name, direction):
    return kp.transpose(s, kp.IntervalsByName[name], direction=direction)


def check(case):
    l, alt, o, name, direction = case['l'], case['alt'], case['o'], case['name'], case['dir']
    src = M.spell(l, alt, o)
    l1, a1, o1 = M.transpose(l, alt, o, name, direction)
    spellable = -2 <= a1 <= 2
    opposite = 'down' if direction == 'up' else 'up'
    classes = ['spellable' if spellable else 'unspellable', 'dir=' + direction]
    got = None
    try:
        got = _tr(src, name, direction)
    except Exception as e:  # noqa
        if spellable:
            raise Bad('raised-on-spellable', f'transpose({src!r},{name},{direction}) raised {e!r}')
    if spellable:
        exp = M.spell(l1, a1, o1)
        if got != exp:
            raise Bad('wrong-result', f'transpose({src!r},{name},{direction}) = {got!r}, model says {exp!r}')
    if got is not None and spellable:
        back = _tr(got, name, opposite)
        if back != src:
            raise Bad('inverse', f'{src!r} -{name} {direction}-> {got!r} -{name} {opposite}-> {back!r}')
    elif got is not None:
        # unspellable intermediate: whatever came back, going back must not give a *different* pitch silently
        try:
            back = _tr(got, name, opposite)
        except Exception:
            back = None
            classes.append('unspellable-back-raises')
        if back is not None and back != src:
            raise Bad('inverse-unspellable', f'{src!r} -{name} {direction}-> {got!r} -{name} {opposite}-> {back!r}')
    if name == 'P1' and got != src:
        raise Bad('unison', f'P1 {direction} of {src!r} gave {got!r}')
    if name == 'octave':
        exp = M.spell(l, alt, o + (1 if direction == 'up' else -1))
        if got != exp:
            raise Bad('octave', f'octave {direction} of {src!r} gave {got!r}, expected {exp!r}')
    if name == 'P4':
        # a fourth followed by a fifth equals an octave
        exp = M.spell(l, alt, o + (1 if direction == 'up' else -1))
        mid_ok = spellable
        try:
            two = _tr(got, 'P5', direction) if got is not None else None
        except Exception as e:  # noqa
            two = None
            if mid_ok:
                raise Bad('p4p5-raised', f'P5 {direction} of {got!r} raised {e!r}')
        if two is not None and two != exp and mid_ok:
            raise Bad('p4p5', f'{src!r} P4 then P5 {direction} = {two!r}, octave = {exp!r}')
    nontrivial = spellable and got != src
    return Result(nontrivial=nontrivial, classes=classes,
                  sample={'pitch': src, 'interval': name, 'direction': direction, 'result': got})


def check_table(case):
    names = list(kp.AVAILABLE_INTERVALS)
    if len(names) != 40 or len(set(names)) != 40:
        raise Bad('interval-count', f'AVAILABLE_INTERVALS has {len(names)} names, {len(set(names))} distinct')
    if set(names) != set(M.INTERVAL_NAMES):
        raise Bad('interval-names', f'names differ from the 40 documented ones: {sorted(set(names) ^ set(M.INTERVAL_NAMES))}')
    if set(kp.IntervalsByName) != set(names):
        raise Bad('interval-by-name', 'IntervalsByName keys differ from AVAILABLE_INTERVALS')
    vals = [kp.IntervalsByName[n] for n in names]
    if len(set(vals)) != 40:
        raise Bad('interval-values', 'two interval names share a value')
    return Result(nontrivial=False, classes=['table'])


def check_american(case):
    """Thorough only: same grid through the AgnosticPitch-level API (transpose_agnostics).  The American notation
    path ('Cbb4') is NOT asserted: the property is about Humdrum spellings, and that path has defects of its own
    (upper-casing 'b' flats) that are outside the statement."""
    l, alt, o, name, direction = case['l'], case['alt'], case['o'], case['name'], case['dir']
    l1, a1, o1 = M.transpose(l, alt, o, name, direction)
    if not -2 <= a1 <= 2:
        return Result(classes=['agnostic-api-unspellable'])
    p = kp.AgnosticPitch(M.LETTERS[l] + ('+' * alt if alt > 0 else '-' * -alt), o)
    q = kp.transpose_agnostics(p, kp.IntervalsByName[name], direction=direction)
    expn = M.LETTERS[l1] + ('+' * a1 if a1 > 0 else '-' * -a1)
    if (q.name, q.octave) != (expn, o1):
        raise Bad('agnostic-api', f'transpose_agnostics({p.name},{p.octave},{name},{direction}) = {(q.name, q.octave)}, model {(expn, o1)}')
    if (p.name, p.octave) != (M.LETTERS[l] + ('+' * alt if alt > 0 else '-' * -alt), o):
        raise Bad('agnostic-api-mutated', 'source AgnosticPitch changed by transposition')
    return Result(nontrivial=(q.name, q.octave) != (p.name, p.octave), classes=['agnostic-api'], key=['ag', case],
                  sample={'agnostic': [p.name, p.octave], 'interval': name, 'direction': direction, 'result': [q.name, q.octave]})


def _american(l, alt, o):
    return M.LETTERS[l] + ('#' * alt if alt > 0 else 'b' * -alt) + str(o)


def check_notation(case):
    """the same arithmetic when the argument and / or the result are written in the American notation
    (kernpy.transpose(..., input_format='american', output_format='american'): 'Bb3', 'C##0', 'A0')"""
    l, alt, o, name, direction = case['l'], case['alt'], case['o'], case['name'], case['dir']
    l1, a1, o1 = M.transpose(l, alt, o, name, direction)
    if not -2 <= a1 <= 2:
        return Result(classes=['notation-unspellable'])
    iv = kp.IntervalsByName[name]
    want = {'kern': M.spell(l1, a1, o1), 'american': _american(l1, a1, o1)}
    src = {'kern': M.spell(l, alt, o), 'american': _american(l, alt, o)}
    problems = []
    for fin, fout in (('american', 'kern'), ('kern', 'american'), ('american', 'american')):
        call = f'transpose({src[fin]!r},{name},{direction}, input_format={fin}, output_format={fout})'
        try:
            got = kp.transpose(src[fin], iv, input_format=fin, output_format=fout, direction=direction)
        except Exception as e:  # noqa
            problems.append(Problem('notation-raised', f'{call} raised {e!r}', {'fin': fin, 'fout': fout, 'alt': alt, 'a1': a1}))
            continue
        if got != want[fout]:
            problems.append(Problem('notation-wrong-result', f'{call} = {got!r}, model says {want[fout]!r}',
                                    {'fin': fin, 'fout': fout, 'alt': alt, 'a1': a1, 'got': got, 'want': want[fout]}))
    r = Result(nontrivial=(l1, a1, o1) != (l, alt, o), classes=['american-notation'], evals=3, key=['am', case],
               sample={'pitch': src['american'], 'interval': name, 'direction': direction, 'result': want['american']})
    r.problems = problems
    return r


def f_amsharp(case, p):
    """KF-C09-AMSHARP: a result with TWO sharps written in the American notation comes out with two flats
    ('F##4' -> 'Fbb4'); letter and octave are right, and nothing else is wrong.  (test_transposer pins 'Fbb4'.)"""
    d = p.data
    return (p.sig == 'notation-wrong-result' and d.get('fout') == 'american' and d.get('a1') == 2
            and d.get('got') == d.get('want', '').replace('##', 'bb'))


FINDINGS = {'KF-C09-AMSHARP': f_amsharp}


def check_reused(case):
    """the whole grid again on ONE AgnosticPitch object whose public name / octave attributes are re-assigned between
    calls (a value cached inside the object must not survive the assignment)"""
    p = kp.AgnosticPitch('C', 4)
    n = 0
    order = case['order']
    for l in range(7):
        for alt in range(-2, 3):
            nm = M.LETTERS[l] + ('+' * alt if alt > 0 else '-' * -alt)
            if order == 'name-outer':
                p.name = nm
            for o in range(0, 9):
                if order == 'name-outer':
                    p.octave = o
                else:
                    p.octave = o
                    p.name = nm
                for name in M.INTERVAL_NAMES:
                    for d in ('up', 'down'):
                        l1, a1, o1 = M.transpose(l, alt, o, name, d)
                        if not -2 <= a1 <= 2:
                            continue
                        q = kp.transpose_agnostics(p, kp.IntervalsByName[name], direction=d)
                        n += 1
                        expn = M.LETTERS[l1] + ('+' * a1 if a1 > 0 else '-' * -a1)
                        if (q.name, q.octave) != (expn, o1):
                            raise Bad('reused-object', f'one AgnosticPitch object re-assigned to ({nm},{o}) [{order}]: {name} {d} gives '
                                                       f'({q.name},{q.octave}), model ({expn},{o1})')
                        if (p.name, p.octave) != (nm, o):
                            raise Bad('reused-object-mutated', f'transposition changed its argument to ({p.name},{p.octave})')
    return Result(nontrivial=True, classes=['reused-object'], evals=n, key=['reused', order],
                  sample={'reused_object': order, 'calls': n})


def grid():
    for l in range(7):
        for alt in range(-2, 3):
            for o in range(0, 9):
                for name in M.INTERVAL_NAMES:
                    for d in ('up', 'down'):
                        yield {'l': l, 'alt': alt, 'o': o, 'name': name, 'dir': d}


def run(ctx):
    ctx.check_all([{'table': True}], check_table)
    ctx.check_all(grid(), check)
    ctx.check_all([{'order': 'name-outer'}, {'order': 'octave-then-name'}], check_reused)
    ctx.check_all(({**g, 'notation': True} for g in grid()), check_notation)
    if not ctx.quick:
        ctx.check_all(grid(), check_american)
    ctx.rec.exhaustive = True
    ctx.rec.notes['grid'] = '7x5x9x40x2'


def replay(case):
    if 'table' in case:
        return check_table(case)
    if 'order' in case:
        return check_reused(case)
    if case.get('notation'):
        return check_notation(case)
    r = check(case)
    check_american(case)
    return r
