"""C20 - file and command-line paths equal the in-memory API."""
import contextlib
import io
import os
import subprocess
import sys
import tempfile

import kernpy as kp
from hypothesis import strategies as st

from .. import cats, common, docgen as D, kdoc as K, malformed as MF, snapshot as SN, spine as S
from ..common import Bad, Result

ID = 'C20'
SHARDS_QUICK = 4
TC = kp.TokenCategory
CONSTS0 = SN.constants()  # the converters read BEKERN_CATEGORIES: an API call must not change what they will use
RULE = ('Hypothesis documents (profile "full": non-ASCII lyrics, quotes, commas) rendered with LF or CRLF line ends, with '
        'or without final newline, some with 1-2 malformed cells, written to a fresh temporary directory (removed at '
        'the end of every case).  Oracles: load(path) vs loads(text): equal deep snapshots, equal error lists, equal '
        'exports, also for a second load of the unchanged file after the owner of an earlier loaded document modified it; dump(doc, <missing dirs>/file, **options) for 5 drawn option sets (encoding, include, exclude, spine ids, '
        'spine types, measure ranges incl. single measures, show_measure_numbers; sets that dumps itself rejects are '
        'skipped) written one after the other to the SAME path (every second time over other content of exactly the new size): the file (read back byte-exact, UTF-8) equals dumps(doc, **options) each time; CLI --kern2ekern '
        '(in-process through kernpy.__main__.main with a patched sys.argv) on a single file with implicit and explicit '
        '--output_path and on a directory tree of 2-5 files in two levels with suffixes .krn/.kern/.txt, with and without '
        '-r (and once more with --output_path: every convertible file must still get an output of its own, beside the source or under that path): an .ekrn file appears for exactly the matching error-free files and holds exactly dumps(load(f), '
        'spine_types=["**kern"], include=BEKERN_CATEGORIES, encoding=eKern); --ekern2kern writes exactly '
        'get_kern_from_ekern(content); kern->ekern->kern->ekern returns the first ekern.  Every run also performs a '
        'few real "python -m kernpy" subprocess invocations.  The repository\'s own sample scores are taken as they lie on disk: load vs loads, dump vs dumps for four option sets, the converters vs the API.  Non-trivial: CRLF or non-ASCII text present and a '
        'directory run with >=2 matching files.')
ASSUMPTIONS = ['UTF-8 locale (the sandbox default); _write and the converters use the locale encoding',
               'ekern inputs of --ekern2kern use LF line ends (the converter\'s own output); CRLF ekern files are read in '
               'text mode by the CLI and are not compared',
               'chords that mix rests with foreign signifiers are not generated here (KF-CHORDREST is tracked under C01)']


def cli(*args):
    from kernpy.__main__ import main as cli_main
    old = sys.argv
    sys.argv = ['kernpy'] + list(args)
    out, err = io.StringIO(), io.StringIO()
    try:
        with contextlib.redirect_stdout(out), contextlib.redirect_stderr(err):
            try:
                cli_main()
                rc = 0
            except SystemExit as e:
                rc = e.code
            except Exception as e:  # noqa
                rc = ('EXC', repr(e))
    finally:
        sys.argv = old
    return rc, out.getvalue(), err.getvalue()


def cli_subprocess(*args):
    env = dict(os.environ, PYTHONPATH=common.REPO, PYTHONDONTWRITEBYTECODE='1')
    p = subprocess.run([sys.executable, '-m', 'kernpy'] + list(args), capture_output=True, text=True, env=env, timeout=120)
    return p.returncode, p.stdout, p.stderr


def read(path):
    with open(path, 'rb') as f:
        return f.read().decode('utf-8', errors='replace')  # a damaged file is a finding, not a crash of the harness


def write(path, text):
    os.makedirs(os.path.dirname(path), exist_ok=True)
    with open(path, 'w', newline='', encoding='utf-8') as f:
        f.write(text)


@st.composite
def renderings(draw, damage=True):
    # documents without any **kern spine are legitimate inputs as well (the converters then produce an empty file)
    doc = draw(D.documents(D.profile('full', kern_weight=3, hidden_bars=True, force_kern=draw(st.integers(0, 5)) > 0)))
    dmg = []
    if damage and draw(st.integers(0, 4)) == 0:
        cand = [(i, k) for i, k, c in S.cells(doc) if c['k'] in ('note', 'rest', 'chord', 'text', 'null')]
        if cand:
            for (i, k) in draw(st.lists(st.sampled_from(cand), min_size=1, max_size=2, unique=True)):
                m = draw(MF.malformed())
                doc['rows'][i]['c'][k] = {'k': 'damaged', 't': m['t'], 'e': m['t'], 'cat': None}
                dmg.append([i, k])
    return {'doc': doc, 'nl': '\r\n' if draw(st.integers(0, 2)) == 0 else '\n', 'final': draw(st.integers(0, 3)) > 0, 'damaged': dmg}


@st.composite
def option_sets(draw, n):
    o = {}
    if draw(st.booleans()):
        o['encoding'] = draw(st.sampled_from(['kern', 'ekern', 'bkern', 'bekern']))
    if draw(st.booleans()):
        # sometimes the very set the converters use, passed as the object itself
        o['include'] = draw(st.one_of(st.lists(st.sampled_from(cats.ALL), min_size=1, max_size=5, unique=True), st.just('BEKERN')))
    if draw(st.integers(0, 2)) == 0:
        o['exclude'] = draw(st.lists(st.sampled_from(cats.ALL), max_size=3, unique=True))
    if draw(st.integers(0, 2)) == 0:
        o['spine_ids'] = draw(st.lists(st.integers(0, n - 1), max_size=n, unique=True))
    if draw(st.integers(0, 3)) == 0:
        o['spine_types'] = draw(st.lists(st.sampled_from(D.ALL_TYPES), max_size=3, unique=True))
    if draw(st.integers(0, 2)) == 0:
        # measure ranges, single measures included; what dumps rejects is not compared
        a = draw(st.integers(0, 4))
        x = draw(st.integers(0, 3))
        if x != 3:
            o['from_measure'] = a
        if x != 2:
            o['to_measure'] = a + draw(st.sampled_from([0, 0, 1, 2]))
    if draw(st.integers(0, 5)) == 0:
        o['show_measure_numbers'] = draw(st.booleans())
    return o


@st.composite
def cases(draw):
    main_ = draw(renderings())
    n = len(main_['doc']['types'])
    opts = [draw(option_sets(n)) for _ in range(5)]
    nfiles = draw(st.integers(3, 5))
    tree = []
    used = set()
    for j in range(nfiles):
        sub = draw(st.sampled_from(['', '', '', 'sub', 'sub/deep', 'other']))
        # the same base name may occur in different directories, never twice in one directory
        stem = draw(st.sampled_from(['score', 'a', 'b', 'c']))
        while (sub, stem) in used:
            stem += 'x'
        used.add((sub, stem))
        tree.append({'r': draw(renderings(damage=draw(st.integers(0, 3)) == 0)), 'sub': sub, 'stem': stem,
                     'suffix': draw(st.sampled_from(['.krn', '.krn', '.krn', '.kern', '.kern', '.txt']))})
    return {'main': main_, 'opts': opts, 'tree': tree, 'recursive': draw(st.sampled_from([True, True, False])), 'subprocess': False}


def text_of(r):
    return S.render(r['doc'], nl=r['nl'], final=r['final'])


def kw_of(o):
    kw = {}
    if 'encoding' in o:
        kw['encoding'] = K.ENCODINGS[o['encoding']]
    for k in ('include', 'exclude'):
        if k in o:
            kw[k] = kp.BEKERN_CATEGORIES if o[k] == 'BEKERN' else [TC[x] for x in o[k]]
    if 'spine_ids' in o:
        kw['spine_ids'] = list(o['spine_ids'])
    for k in ('spine_types', 'from_measure', 'to_measure', 'show_measure_numbers'):
        if k in o:
            kw[k] = o[k]
    return kw


def expected_ekern(path):
    """what the API produces for the file (None if it imports with errors)"""
    d, errs = kp.load(path)
    if errs:
        return None
    return kp.dumps(d, spine_types=['**kern'], include=kp.BEKERN_CATEGORIES, encoding=kp.Encoding.eKern)


def check(case):
    run_cli = cli_subprocess if case.get('subprocess') else cli
    classes = ['cli=subprocess' if case.get('subprocess') else 'cli=in-process']
    with tempfile.TemporaryDirectory(prefix='kv_c20_') as td:
        # ---- load vs loads
        r = case['main']
        text = text_of(r)
        p = os.path.join(td, 'in', 'main.krn')
        write(p, text)
        try:
            d1, e1 = kp.load(p)
        except Exception as e:  # noqa
            raise Bad('load-raised', f'load(file) raised {type(e).__name__}: {e}\n{text!r}')
        try:
            d2, e2 = kp.loads(text)
        except Exception as e:  # noqa
            raise Bad('loads-raised', f'loads(text) raised {type(e).__name__}: {e} (load of the same text did not)\n{text!r}')
        diff = SN.first_difference(SN.snapshot(d2), SN.snapshot(d1))
        if diff:
            raise Bad('load-differs', f'load(file) and loads(text) build different documents: {diff}\n{text!r}')
        if [(x.line, x.encoding) for x in e1] != [(x.line, x.encoding) for x in e2]:
            raise Bad('load-errors-differ', f'errors {[(x.line, x.encoding) for x in e1]} vs {[(x.line, x.encoding) for x in e2]}')
        if kp.dumps(d1) != kp.dumps(d2):
            raise Bad('load-export-differs', 'exports differ')
        if e1 and not r['damaged']:
            # a well-formed document: the converters below only accept files that import without errors
            raise Bad('import-errors', f'well-formed document imported with errors {[(x.line, x.encoding) for x in e1]}\n{text!r}')
        classes.append('CRLF' if r['nl'] == '\r\n' else 'LF')
        # ---- every load reads the file: a document handed out earlier belongs to its caller, who may have changed it
        d1b, _ = kp.load(p)
        for t in d1b.get_all_tokens():
            t.hidden = True
        d1b.measure_start_tree_stages.append(1)
        d1c, e1c = kp.load(p)
        if d1c is d1b or d1c is d1:
            raise Bad('load-returns-shared-document', 'two load() calls for the same file return the same Document object')
        diff = SN.first_difference(SN.snapshot(d2), SN.snapshot(d1c))
        if diff:
            raise Bad('load-differs-after-earlier-load', f'load(file) after an earlier load of the same unchanged file whose document was modified by its owner '
                                                         f'(tokens hidden) differs from loads(text): {diff}\n{text!r}')
        if [(x.line, x.encoding) for x in e1c] != [(x.line, x.encoding) for x in e2]:
            raise Bad('load-errors-differ', 'error lists of the second load differ')
        # ---- dump vs dumps, several option sets to the SAME path
        q = os.path.join(td, 'out', 'x', 'y', 'result.krn')
        for oi, o in enumerate(case['opts']):
            kw = kw_of(o)
            try:
                exp = kp.dumps(d2, **kw)
            except Exception:  # noqa  (e.g. a measure range the document does not have: nothing to compare)
                classes.append('dumps-rejects-options')
                continue
            if oi % 2 == 1:
                write(q, 'Z' * len(exp.encode('utf-8')))  # the target exists and has, by chance, the size of the new content
            try:
                kp.dump(d1, q, **kw)
            except Exception as e:  # noqa
                raise Bad('dump-raised', f'dump({K._kwrepr(kw)}) raised {type(e).__name__}: {e}')
            if not os.path.exists(q):
                raise Bad('dump-no-file', f'dump did not create {q}')
            got = read(q)
            if got != exp:
                raise Bad('dump-differs', f'dump({K._kwrepr(kw)}) wrote {got!r}; dumps returns {exp!r}', opts=o)
        c_now = SN.constants()
        if c_now != CONSTS0:
            ks = [k for k in c_now if c_now[k] != CONSTS0[k]]
            raise Bad('constants-changed', f'after dump/dumps calls the module constants {ks} differ: {CONSTS0[ks[0]]} -> {c_now[ks[0]]} '
                                           f'(the command-line converters use them)')
        # ---- CLI on a single file (only when it imports cleanly)
        evals = 2 + len(case['opts'])
        if not e1:
            api = expected_ekern(p)
            rc, so, se = run_cli('--kern2ekern', '--input_path', p)
            evals += 1
            ek = os.path.join(td, 'in', 'main.ekrn')
            if rc != 0 or not os.path.exists(ek):
                raise Bad('cli-kern2ekern-failed', f'rc={rc} stderr={se[-400:]}\n{text!r}')
            got = read(ek)
            if got != api:
                raise Bad('cli-kern2ekern-differs', f'CLI wrote {got!r}; the API produces {api!r}\n{text!r}')
            ek2 = os.path.join(td, 'explicit', 'named.ekrn')
            os.makedirs(os.path.dirname(ek2))
            rc, so, se = run_cli('--kern2ekern', '--input_path', p, '--output_path', ek2, '--verbose', '0')
            if rc != 0 or not os.path.exists(ek2) or read(ek2) != api:
                raise Bad('cli-output-path', f'explicit --output_path: rc={rc}, exists={os.path.exists(ek2)} stderr={se[-300:]}')
            back = os.path.join(td, 'explicit', 'back.krn')
            rc, so, se = run_cli('--ekern2kern', '--input_path', ek, '--output_path', back)
            evals += 1
            if rc != 0 or not os.path.exists(back):
                raise Bad('cli-ekern2kern-failed', f'rc={rc} stderr={se[-400:]}')
            if read(back) != kp.get_kern_from_ekern(got):
                raise Bad('cli-ekern2kern-differs', f'CLI wrote {read(back)!r}; get_kern_from_ekern gives {kp.get_kern_from_ekern(got)!r}')
            # implicit output of ekern2kern: same stem, .krn
            imp_in = os.path.join(td, 'explicit', 'named.ekrn')
            rc, so, se = run_cli('--ekern2kern', '--input_path', imp_in)
            if rc != 0 or read(os.path.join(td, 'explicit', 'named.krn')) != kp.get_kern_from_ekern(got):
                raise Bad('cli-ekern2kern-implicit', f'rc={rc} stderr={se[-300:]}')
            # an ekern text written by hand need not end with a newline
            noeol = os.path.join(td, 'explicit', 'noeol.ekrn')
            write(noeol, got.rstrip('\n'))
            rc, so, se = run_cli('--ekern2kern', '--input_path', noeol)
            evals += 1
            if rc != 0 or read(os.path.join(td, 'explicit', 'noeol.krn')) != kp.get_kern_from_ekern(got.rstrip('\n')):
                raise Bad('cli-ekern2kern-no-final-newline', f'rc={rc}: CLI wrote {read(os.path.join(td, "explicit", "noeol.krn"))[-40:]!r}; '
                                                             f'get_kern_from_ekern gives {kp.get_kern_from_ekern(got.rstrip(chr(10)))[-40:]!r}')
            rc, so, se = run_cli('--kern2ekern', '--input_path', back)
            evals += 1
            ek3 = os.path.join(td, 'explicit', 'back.ekrn')
            if rc != 0 or not os.path.exists(ek3):
                raise Bad('round-trip-failed', f'kern->ekern->kern->ekern: second kern2ekern failed rc={rc} {se[-400:]}\n--- first ekern\n{got}--- kern\n{read(back)}')
            if read(ek3) != got:
                raise Bad('round-trip-differs', f'kern->ekern->kern->ekern\n--- first ekern\n{got}--- second ekern\n{read(ek3)}')
        # ---- CLI on a directory tree
        root = os.path.join(td, 'tree')
        os.makedirs(root)
        files = []
        for f in case['tree']:
            fp = os.path.join(root, f['sub'], f['stem'] + f['suffix'])
            write(fp, text_of(f['r']))
            files.append((fp, f))
        args = ['--kern2ekern', '--input_path', root] + (['-r'] if case['recursive'] else [])
        rc, so, se = run_cli(*args)
        evals += 1
        if rc != 0:
            raise Bad('cli-directory-failed', f'rc={rc} stderr={se[-400:]}')
        matching = 0
        for fp, f in files:
            out = os.path.splitext(fp)[0] + '.ekrn'
            selected = f['suffix'] in ('.krn', '.kern') and (case['recursive'] or f['sub'] == '')
            api = expected_ekern(fp) if selected else None
            if api is None:
                if os.path.exists(out):
                    why = 'is not selected' if not selected else 'imports with errors'
                    raise Bad('cli-unexpected-output', f'{os.path.relpath(fp, root)} {why} (recursive={case["recursive"]}) but {os.path.relpath(out, root)} was written')
            else:
                matching += 1
                if not os.path.exists(out):
                    raise Bad('cli-missing-output', f'no output for {os.path.relpath(fp, root)} (recursive={case["recursive"]}); stderr={se[-300:]}')
                if read(out) != api:
                    raise Bad('cli-directory-differs', f'{os.path.relpath(fp, root)}: CLI wrote {read(out)!r}; API gives {api!r}')
        # a directory together with --output_path: where the outputs go is not pinned down (next to the sources, as kernpy
        # does, or collected under that path), but every selected file still gets an output of its own with the API's text
        root2, coll = os.path.join(td, 'tree2'), os.path.join(td, 'collected')
        for fp, f in files:
            write(os.path.join(root2, f['sub'], f['stem'] + f['suffix']), text_of(f['r']))
        rc, so, se = run_cli(*(['--kern2ekern', '--input_path', root2, '--output_path', coll] + (['-r'] if case['recursive'] else [])))
        evals += 1
        if rc != 0:
            raise Bad('cli-directory-output-path-failed', f'directory input with --output_path: rc={rc} stderr={se[-400:]}')
        found_under = {}
        if os.path.isdir(coll):
            for dp, _, fns in os.walk(coll):
                for fn in fns:
                    found_under.setdefault(fn, []).append(read(os.path.join(dp, fn)))
        want = [(fp, f, expected_ekern(fp)) for fp, f in files
                if f['suffix'] in ('.krn', '.kern') and (case['recursive'] or f['sub'] == '')]
        want = [(fp, f, api) for fp, f, api in want if api is not None]
        for fp, f, api in want:
            beside = os.path.join(root2, f['sub'], f['stem'] + '.ekrn')
            ok = (os.path.exists(beside) and read(beside) == api) or api in found_under.get(f['stem'] + '.ekrn', []) \
                or (len(want) == 1 and os.path.isfile(coll) and read(coll) == api)
            if not ok:
                raise Bad('cli-directory-output-path-loses-files', f'directory input with --output_path (recursive={case["recursive"]}, {len(want)} convertible files): '
                          f'no output with the API\'s text for {os.path.join(f["sub"], f["stem"] + f["suffix"])}, neither beside the source nor under the given path; stderr={se[-300:]}')
        # ekern2kern over the same tree
        rc, so, se = run_cli(*(['--ekern2kern', '--input_path', root] + (['-r'] if case['recursive'] else [])))
        if rc != 0:
            raise Bad('cli-directory-e2k-failed', f'rc={rc} {se[-300:]}')
        for fp, f in files:
            ek = os.path.splitext(fp)[0] + '.ekrn'
            if os.path.exists(ek) and f['suffix'] != '.krn':
                # a.kern -> a.ekrn -> a.krn
                kr = os.path.splitext(fp)[0] + '.krn'
                if not os.path.exists(kr) or read(kr) != kp.get_kern_from_ekern(read(ek)):
                    raise Bad('cli-directory-e2k-differs', f'{os.path.relpath(ek, root)} -> {os.path.relpath(kr, root)}')
        nonascii = any(ord(ch) > 127 for ch in text)
        nt = (r['nl'] == '\r\n' or nonascii) and matching >= 2
        classes += ['recursive' if case['recursive'] else 'non-recursive', f'matching-files={matching}'] + (['non-ascii'] if nonascii else []) + \
                   (['import-errors'] if e1 else [])
    return Result(nontrivial=nt, classes=classes, evals=evals, sample={'text': text, 'options': case['opts'][:2],
                                                                       'tree': [f['sub'] + '/' + f['stem'] + f['suffix'] for f in case['tree']]},
                  key=[text, case['opts'], [text_of(f['r']) for f in case['tree']]])


def check_real(case):
    """a sample score of the repository, as it lies on disk (whatever line ends, encoding quirks and final newline it has):
    load(path) == loads(its text); dump == dumps for a few option sets; the converters write what the API produces"""
    from .. import realscores as RS
    src = RS.path(case['real'])
    with open(src, 'rb') as f:
        rawb = f.read()
    try:
        text = rawb.decode('utf-8')
    except UnicodeDecodeError:
        return Result(classes=['real-score-not-utf8'])  # the property is stated for UTF-8 (see ASSUMPTIONS)
    try:
        d2, e2 = kp.loads(text)
    except Exception as e:  # noqa
        try:
            kp.load(src)
        except Exception as e_:  # noqa
            if type(e_) is type(e):
                return Result(classes=['real-score-not-importable'])
        raise Bad('loads-raised', f'{case["real"]}: loads(text) raised {type(e).__name__}: {e}; load(file) did not raise the same')
    try:
        d1, e1 = kp.load(src)
    except Exception as e:  # noqa
        raise Bad('load-raised', f'{case["real"]}: load(file) raised {type(e).__name__}: {e}; loads(text) did not')
    diff = SN.first_difference(SN.snapshot(d2), SN.snapshot(d1))
    if diff:
        raise Bad('load-differs', f'{case["real"]}: load(file) and loads(text) build different documents: {diff}')
    if [(x.line, x.encoding) for x in e1] != [(x.line, x.encoding) for x in e2]:
        raise Bad('load-errors-differ', f'{case["real"]}: error lists differ')
    evals = 1
    with tempfile.TemporaryDirectory(prefix='kv_c20r_') as td:
        q = os.path.join(td, 'out', 'deep', 'result.krn')
        M = len(d2.measure_start_tree_stages)
        for kw in ({}, {'encoding': kp.Encoding.eKern, 'exclude': [TC.DECORATION]}, {'spine_types': ['**kern'], 'encoding': kp.Encoding.bEkern},
                   {'from_measure': 1 + case['raw'][0][0] % max(M, 1), 'to_measure': M} if M else {}):
            try:
                exp = kp.dumps(d2, **kw)
            except Exception:  # noqa
                continue
            kp.dump(d1, q, **kw)
            evals += 1
            if read(q) != exp:
                raise Bad('dump-differs', f'{case["real"]}: dump({K._kwrepr(kw)}) wrote a different text than dumps returns')
        if not e1 and kp.spine_types(d1, ['**kern']):
            p = os.path.join(td, 'in', 'score.krn')
            write(p, text)
            api = expected_ekern(p)
            rc, so, se = cli('--kern2ekern', '--input_path', p)
            evals += 1
            ek = os.path.join(td, 'in', 'score.ekrn')
            if rc != 0 or not os.path.exists(ek):
                if api is not None:
                    raise Bad('cli-kern2ekern-failed', f'{case["real"]}: rc={rc} stderr={se[-300:]}')
            elif read(ek) != api:
                raise Bad('cli-kern2ekern-differs', f'{case["real"]}: the CLI wrote a different text than the API produces')
            else:
                back = os.path.join(td, 'in', 'back.krn')
                rc, so, se = cli('--ekern2kern', '--input_path', ek, '--output_path', back)
                if rc != 0 or read(back) != kp.get_kern_from_ekern(read(ek)):
                    raise Bad('cli-ekern2kern-differs', f'{case["real"]}: rc={rc}; the CLI output differs from get_kern_from_ekern')
    return Result(nontrivial=len(text) > 500, evals=evals, classes=['real-score'] + (['real-score-with-import-errors'] if e1 else []) + (['CRLF'] if '\r\n' in text else []),
                  sample={'file': case['real']}, key=['real', case['real'], case['raw'][0]])


def run(ctx):
    from .. import realscores as RS
    rc_ = RS.cases(max_bytes=16000, nranges=1)
    if rc_ is not None:
        ctx.run_hypothesis(rc_, check_real, max_examples=max(3, (16 if ctx.quick else 300) // ctx.nshards), salt=9, label='real-scores')
    ctx.run_hypothesis(cases(), check, max_examples=28 if ctx.quick else 700, label='files')
    ctx.run_hypothesis(cases().map(lambda c: dict(c, subprocess=True)), check, max_examples=1 if ctx.quick else 6, salt=1, label='subprocess')


def replay(case):
    if 'real' in case:
        return check_real(case)
    return check(case)
