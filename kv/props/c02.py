"""C02 - import builds a spine tree that mirrors the text cell for cell."""
import itertools

import kernpy as kp
from hypothesis import strategies as st

from .. import docgen as D, grammar as G, kdoc as K, spine as S
from ..common import Bad, Result

ID = 'C02'
SHARDS_THOROUGH = 16
SHARDS_QUICK = 4
KNOWN_HEADERS = {'**mens', '**kern', '**text', '**harm', '**mxhm', '**root', '**dyn', '**dynam', '**fing'}
RULE = ('(a) EXHAUSTIVE spine-operator layouts: from 1-3 spines (five header mixes incl. repeated types and an unknown **foo type), every '
        'legal operator row (each path one of *, *^, *-, or member of a *v run of length >=2 inside its spine, at least '
        'one real operator, width <=5) from every reachable state, a labelled data row between operator rows, closed by '
        'terminators: depth <=2 completely in the quick tier (+ a seed-dependent stride of depth 3), depth <=3 '
        'completely in the thorough tier; Hypothesis random walks over the same layout graph to depth 7 / width 8 with '
        'operator-dense rows.  (b) Hypothesis documents of the "full" profile with blank lines inserted. '
        '(c) Hypothesis documents whose **text / unknown-type cells are literals over an alphabet weighted to quote, '
        'apostrophe, comma, space, backslash and non-ASCII characters at the start, middle and end of cells. (d) a '
        'valid document with 1-3 surplus cells appended to one line: loads must raise.  Oracle: kv/spine.py against '
        'Document.tree (stage count, per-stage encodings in order, parent of every node, header node, spine id, '
        'children order, get_spine_ids, spine_types).  Non-trivial: layout with a split and a join, or a cell with a '
        'quote/comma/space/non-ASCII character, or a surplus-cell line.')
ASSUMPTIONS = ['kv/spine.py implements the Humdrum spine-path rules stated in the property (split: both children below the '
               'split cell; join: merged path continues below the first *v of the run; runs never cross a spine boundary)',
               'a barline token\'s encoding is the cell text without the measure number (C03 states this normalisation)',
               'global comments are not cells: they form one single-node stage each and are skipped when looking for '
               'the cell above']
MIXES = (['**kern'], ['**text', '**kern'], ['**kern', '**kern'], ['**kern', '**foo', '**text'], ['**text', '**text', '**kern'])
W = 5


# ---- oracle ----------------------------------------------------------------------------------------------------------
def tree_check(doc, text, kdoc, nonempty_lines):
    a = S.analyze(doc)
    st_ = kdoc.tree.stages
    if len(st_) != 1 + nonempty_lines:
        raise Bad('stage-count', f'{len(st_)} stages for {nonempty_lines} non-empty lines\n{text}')
    pos = {}
    for si, nodes in enumerate(st_):
        for k, n in enumerate(nodes):
            pos[id(n)] = (si, k)
    stage_of = {}
    s = 0
    for i, row in enumerate(doc['rows']):
        s += 1
        stage_of[i] = s
    last_pre = None
    for i, row in enumerate(doc['rows']):
        nodes = st_[stage_of[i]]
        if 'g' in row:
            if len(nodes) != 1 or nodes[0].token.encoding != row['g']:
                raise Bad('global-row', f'row {i}: global comment {row["g"]!r} became {[n.token.encoding for n in nodes]}')
            if a.header_row is None or i < a.header_row:
                last_pre = nodes[0]
            continue
        cells = row['c']
        if len(nodes) != len(cells):
            raise Bad('row-width', f'row {i}: {len(nodes)} nodes for {len(cells)} cells\n{text}')
        for k, (n, c) in enumerate(zip(nodes, cells)):
            exp_enc = c['e'] if c['k'] == 'bar' else c['t']
            if n.token.encoding != exp_enc:
                raise Bad('encoding', f'row {i} col {k}: cell {c["t"]!r} has token encoding {n.token.encoding!r}', src=c['t'])
            if n.stage != stage_of[i]:
                raise Bad('node-stage', f'row {i} col {k}: node.stage={n.stage}, expected {stage_of[i]}')
            sp = a.spines[i][k]
            if i == a.header_row:
                if n.token.spine_id != k or n.header_node is not n:
                    raise Bad('header', f'header col {k}: spine_id={n.token.spine_id}, header_node is self: {n.header_node is n}')
                exp_parent = last_pre if last_pre is not None else kdoc.tree.root
                if n.parent is not exp_parent:
                    raise Bad('header-parent', f'header col {k} hangs from {pos.get(id(n.parent))}')
                continue
            h = n.header_node
            if h is None or pos.get(id(h)) != (stage_of[a.header_row], sp):
                raise Bad('header-node', f'row {i} col {k}: header node at {pos.get(id(h)) if h else None}, expected spine {sp}\n{text}')
            if h.token.spine_id != sp or h.token.encoding != doc['types'][sp]:
                raise Bad('spine-id', f'row {i} col {k}: spine_id {h.token.spine_id}/{h.token.encoding}, expected {sp}/{doc["types"][sp]}')
            pr = a.parents[i][k]
            got_parent = n.parent
            if pos.get(id(got_parent)) != (stage_of[pr[0]], pr[1]):
                raise Bad('parent', f'row {i} col {k} ({c["t"]!r}): parent at {pos.get(id(got_parent))}, model says '
                                    f'{(stage_of[pr[0]], pr[1])} = row {pr[0]} col {pr[1]}\n{text}')
    # children order = left to right
    ch = S.children_map(doc, a)
    for (i, k), kids in ch.items():
        n = st_[stage_of[i]][k]
        gotkids = [pos.get(id(c)) for c in n.children if pos.get(id(c), (0, 0))[0] > 0]
        expkids = [(stage_of[r], c) for r, c in kids]
        # the node that carries the later global comments also lists them; keep cells only
        gotkids = [g for g in gotkids if g in set(expkids)] if len(gotkids) != len(expkids) else gotkids
        if gotkids != expkids:
            raise Bad('children-order', f'row {i} col {k}: children {gotkids}, model {expkids}')
    ids = kdoc.get_spine_ids()
    if ids != list(range(len(doc['types']))):
        raise Bad('spine-ids', f'get_spine_ids() = {ids}')
    exp_types = [t for t in doc['types'] if t in KNOWN_HEADERS]
    got_types = kp.spine_types(kdoc)
    if got_types != exp_types:
        raise Bad('spine-types', f'spine_types(doc) = {got_types}, expected {exp_types}')
    return a


def special(text):
    return any(ch in text for ch in '"\',\\ ') or any(ord(ch) > 127 for ch in text)


def check(case):
    doc = case['doc']
    lines = S.render(doc, final=False).split('\n')
    blanks = case.get('blanks', [])
    out = []
    for i, ln in enumerate(lines):
        if i in blanks:
            out.append('')
        out.append(ln)
    text = case.get('nl', '\n').join(out) + (case.get('nl', '\n') if case.get('final', True) else '')
    if 'surplus' in case:
        row, extra = case['surplus']
        ls = text.split('\n')
        ls[row] = ls[row] + '\t' + '\t'.join(extra)
        bad_text = '\n'.join(ls)
        try:
            kp.loads(bad_text)
        except Exception:
            return Result(nontrivial=True, classes=['surplus'], sample=bad_text, key=['surplus', bad_text])
        raise Bad('surplus-accepted', f'line {row} with surplus cells {extra} was imported without an exception\n{bad_text}')
    try:
        kdoc, errs = kp.loads(text)
    except Exception as e:  # noqa
        raise Bad('import-raised', f'{type(e).__name__}: {e}\n{text}')
    a = tree_check(doc, text, kdoc, len(lines))
    if case.get('file'):
        # the same text through the file reader
        import os
        import tempfile
        with tempfile.TemporaryDirectory(prefix='kv_c02_') as td:
            path = os.path.join(td, 'x.krn')
            with open(path, 'w', encoding='utf-8', newline='') as f:
                f.write(text)
            try:
                fdoc, ferrs = kp.load(path)
            except Exception as e:  # noqa
                raise Bad('file-import-raised', f'load(file) {type(e).__name__}: {e}\n{text}')
        try:
            tree_check(doc, text, fdoc, len(lines))
        except Bad as b:
            raise Bad('file-' + b.sig, 'through kernpy.load(file): ' + b.detail)
    nt = (a.has_split and a.has_join) or any(special(c['t']) for _, _, c in S.cells(doc) if c['k'] in ('text', 'lit'))
    return Result(nontrivial=nt, classes=K.doc_classes(doc, a) + (['blank-lines'] if blanks else []) + [case.get('src', 'random')],
                  sample=text, key=text)


# ---- (a) exhaustive layouts ------------------------------------------------------------------------------------------
def op_rows(paths):
    n = len(paths)
    for ops in itertools.product('*^-v', repeat=n):
        if set(ops) <= {'*'}:
            continue
        ok, i, width = True, 0, 0
        while i < n:
            if ops[i] == 'v':
                j = i
                while j + 1 < n and ops[j + 1] == 'v' and paths[j + 1] == paths[i]:
                    j += 1
                if j == i:
                    ok = False
                    break
                width += 1
                i = j + 1
            else:
                width += {'*': 1, '^': 2, '-': 0}[ops[i]]
                i += 1
        if ok and width <= W:
            yield ops


def apply_ops(paths, ops):
    newp, k = [], 0
    while k < len(paths):
        o = ops[k]
        if o == '*':
            newp.append(paths[k])
        elif o == '^':
            newp += [paths[k], paths[k]]
        elif o == 'v':
            j = k
            while j + 1 < len(paths) and ops[j + 1] == 'v' and paths[j + 1] == paths[k]:
                j += 1
            newp.append(paths[k])
            k = j
        k += 1
    return newp


def enum_layouts(ntypes, depth):
    out = []

    def rec(paths, seq):
        if seq:
            out.append(tuple(seq))
        if len(seq) == depth or not paths:
            return
        for ops in op_rows(paths):
            rec(apply_ops(paths, ops), seq + [''.join(ops)])
    rec(list(range(ntypes)), [])
    return out


def build_layout(types, seq):
    rows = [{'c': [G.header_cell(t) for t in types]}]
    paths = list(range(len(types)))

    def data():
        cells = []
        for k, sp in enumerate(paths):
            t = types[sp]
            if t == '**kern':
                n = {'dur': ['4'], 'p': 'abcdefg'[(len(rows) + k) % 7], 'acc': '', 'sigs': []}
                cells.append(G.note_cell_from([n], [[]]))
            else:
                lit = 'r%dc%d' % (len(rows), k)
                cells.append({'k': 'lit', 't': lit, 'e': lit, 'cat': None})
        rows.append({'c': cells})
    data()
    for ops in seq:
        rows.append({'c': [G.op_cell({'^': '*^', 'v': '*v', '-': '*-'}[o]) if o != '*' else G.nullinterp_cell() for o in ops]})
        paths = apply_ops(paths, ops)
        if paths:
            data()
    if paths:
        rows.append({'c': [G.op_cell('*-') for _ in paths]})
    return {'types': list(types), 'rows': rows, 'profile': 'layout'}


def layout_cases(ctx):
    depth_full = 2 if ctx.quick else 3
    idx = 0
    for mi, types in enumerate(MIXES):
        seqs = enum_layouts(len(types), depth_full)
        for s in seqs:
            if idx % ctx.nshards == ctx.shard:
                yield {'doc': build_layout(types, s), 'src': f'layout-depth{len(s)}'}
            idx += 1
        if ctx.quick:
            deeper = [s for s in enum_layouts(len(types), 3) if len(s) == 3]
            stride = max(1, len(deeper) // 200)
            for j in range((ctx.seed + mi) % stride, len(deeper), stride):
                if idx % ctx.nshards == ctx.shard:
                    yield {'doc': build_layout(types, deeper[j]), 'src': 'layout-depth3-sampled'}
                idx += 1


@st.composite
def deep_layouts(draw):
    """random walks over the layout graph beyond the exhaustive depth: up to 7 operator rows, width <= 8, rows dense in
    operators (so that e.g. two join groups separated by terminators, or five sub-spines of one spine, do occur)"""
    types = draw(st.sampled_from([['**kern'], ['**kern'], ['**text', '**kern'], ['**kern', '**kern'], ['**kern', '**foo', '**text']]))
    paths = list(range(len(types)))
    seq = []
    for _ in range(draw(st.integers(3, 7))):
        if not paths:
            break
        ops = [draw(st.sampled_from('*^^vvv-')) for _ in paths]
        # repair: lone joins, joins across a spine boundary, width
        i, n = 0, len(paths)
        while i < n:
            if ops[i] == 'v':
                j = i
                while j + 1 < n and ops[j + 1] == 'v' and paths[j + 1] == paths[i]:
                    j += 1
                if j == i:
                    ops[i] = '*'
                i = j + 1
            else:
                i += 1
        while len(apply_ops(paths, ops)) > 8 and '^' in ops:
            ops[ops.index('^')] = '*'
        if all(o == '-' for o in ops) and draw(st.booleans()):
            ops[0] = '*'
        if set(ops) <= {'*'}:
            ops[0] = '^' if len(paths) < 8 else '-'
        seq.append(''.join(ops))
        paths = apply_ops(paths, ops)
    return {'doc': build_layout(types, seq), 'src': 'layout-random-deep'}


# ---- (b)-(d) random ------------------------------------------------------------------------------------------------
LIT_ALPHA = list('"\'\'",,  \;:ñéü日本ΩaZ09-_/()[]{}<>#&%$?+~^|`') + ['""', "''", '" "', ', ', '\\t', '\\n', '""""', '\u2028', '\x0c', '\x85', '\u2029', '\x1c', '\x0b']


@st.composite
def literal_docs(draw):
    """documents in which every cell of the non-kern spines is an opaque literal full of csv-special characters"""
    P = D.profile('full', types=['**kern', '**text', '**foo', '**silbe', '**dynam', '**mxhm', '**harm', '**fing'], comments=True, kern_weight=1)
    doc = draw(D.documents(P))
    for i, k, c in list(S.cells(doc)):
        if c['k'] == 'text':
            parts = draw(st.lists(st.sampled_from(LIT_ALPHA), min_size=1, max_size=5))
            t = ''.join(parts)
            if draw(st.integers(0, 3)) == 0:
                # labels that begin like a note (a pitch letter) and go on with something else: one cell, one literal
                t = draw(st.sampled_from(['C major', 'D- major-seventh', 'C,E,G', 'Csus4', 'café', 'a tempo', 'G dominant', 'e-moll', 'B♭7', 'f2 f', 'cresc.',
                                          'dim', 'ff', 'A minor', 'gg#q'])) + (t if draw(st.booleans()) else '')
            t = ' '.join(t.split(' ')) if t.strip() == t and '  ' not in t else t.strip().replace('  ', ' ') or 'x'
            if t[0] in '=*.!' or t != t.strip() or not t:
                t = 'a' + t.strip()
            # blanks at the edges of a cell are text too (also in the last column, where they end the line)
            edge = draw(st.integers(0, 5))
            if edge == 0:
                t = t + ' '
            elif edge == 1:
                t = ' ' + t
            elif edge == 2:
                t = ' ' + t + '  '
            c['t'] = c['e'] = t
            c['k'] = 'lit'
        elif c['k'] in ('note', 'rest') and draw(st.integers(0, 7)) == 0:
            # a **kern / **root cell the kern lexer cannot even start on: still one node, with the literal cell text
            t = draw(st.sampled_from(['\u20ac4c', '\u00fc', '\u65e5\u672c', '\u00df8', '\u00a7', '\u00bf4e', '\u3000', '\u00b0c']))
            doc['rows'][i]['c'][k] = {'k': 'lit', 't': t, 'e': t, 'cat': None}
    return doc


@st.composite
def random_cases(draw, kind):
    if kind == 'literal':
        doc = draw(literal_docs())
    else:
        doc = draw(D.documents(D.profile('full', types=D.ALL_TYPES + ['**foo'])))
    case = {'doc': doc, 'src': kind}
    nlines = len(doc['rows'])
    if draw(st.integers(0, 3)) == 0:
        case['blanks'] = sorted(set(draw(st.lists(st.integers(0, nlines - 1), min_size=1, max_size=3))))
        # blank lines directly after a global comment / after the terminator line are the interesting places
        special = [i + 1 for i, r in enumerate(doc['rows']) if i + 1 < nlines and ('g' in r or all(c['t'] == '*-' for c in r['c']))]
        if special and draw(st.booleans()):
            case['blanks'] = sorted(set(case['blanks'] + [draw(st.sampled_from(special))]))
    if draw(st.integers(0, 4)) == 0:
        case['nl'] = '\r\n'
    if draw(st.integers(0, 3)) == 0:
        case['final'] = False
    case['file'] = draw(st.booleans())
    return case


@st.composite
def surplus_cases(draw):
    doc = draw(D.documents(D.profile('full', global_comments=False)))
    rows = [i for i, r in enumerate(doc['rows']) if 'c' in r and i > 0]
    row = draw(st.sampled_from(rows))
    extra = draw(st.lists(st.sampled_from(['4c', '.', '*', '*^', '*v', '*-', '!x', '=1', 'la', '"', '*clefG2', '', '', ' ']), min_size=1, max_size=3))
    return {'doc': doc, 'surplus': [row, extra], 'src': 'surplus'}


def run(ctx):
    ctx.check_all(layout_cases(ctx), check)
    n = (300 if ctx.quick else 20000) // ctx.nshards
    ctx.run_hypothesis(deep_layouts(), check, max_examples=(600 if ctx.quick else 40000) // ctx.nshards, salt=4, label='deep-layouts')
    ctx.run_hypothesis(random_cases('full'), check, max_examples=n, salt=1, label='random-full')
    ctx.run_hypothesis(random_cases('literal'), check, max_examples=n, salt=2, label='literal')
    ctx.run_hypothesis(surplus_cases(), check, max_examples=max(30, n // 3), salt=3, label='surplus')
    ctx.rec.exhaustive = True
    ctx.rec.notes['exhaustive_part'] = 'spine-operator layouts to depth %d over 5 header mixes, width <=5' % (2 if ctx.quick else 3)


def replay(case):
    return check(case)
