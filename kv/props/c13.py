"""C13 - export options act independently of one another."""
import itertools

import kernpy as kp
from hypothesis import strategies as st

from .. import cats, docgen as D, kdoc as K, spine as S, xform as X
from ..common import Bad, Result

ID = 'C13'
SHARDS_QUICK = 4
TC = kp.TokenCategory
RULE = ('Hypothesis documents (profiles "full" with 4 encodings and "agnostic" with all 6) x 8 drawn option sets each: '
        'subset of spine ids (or omitted; as a list in any order in which an id may occur more than once), subset of spine types (or omitted), include/exclude category sets of size '
        '0..5 (or omitted), one of the encodings, and per option an "explicit default instead of omitted" flag '
        '(include=TokenCategory.all(), exclude=[] or set(), encoding=normalizedKern, spine_ids=doc.get_spine_ids(), '
        'spine_types=list(HEADERS), show_measure_numbers=False, instruments=None).  Oracle: dumps with all options must '
        'equal the composition of the three single-option transformations P (C06), F (C05), T (C04/C10) of kv/xform.py '
        'applied to the aligned default extended export, in all six orders (which must also agree with each other); '
        'each single option alone must equal its own transformation; explicit-default calls must equal the omitted call '
        'byte for byte; one Exporter object reused for all option sets of a document, an ExportOptions object used for '
        'other documents before, and kernpy.dump to a file must give the same texts as dumps; barline rows may be '
        'partially invisible ("=1-" in some spines only); profile "noclef": documents without any clef exported in the '
        'agnostic encodings under selections that leave no pitch (PITCH excluded, non-kern spines only, include lists '
        'without PITCH) - option sets that leave a pitch are not compared there: the export is made, whatever it returns or raises is ignored, and the option sets after it must be unaffected.  An evaluation is one (document, option set); non-trivial when at least two of the three options '
        'are non-default and each of them changes the output on its own.')
ASSUMPTIONS = ['kv/xform.py (P, F, T) as validated by C04-C06 and C10', 'placeholders "." and "*" are interchangeable']


@st.composite
def option_sets(draw, ntypes, types, encs):
    o = {}
    n = ntypes
    # a selection is a set written as a list: in any order, and an id may be named more than once (ids collected from
    # several sources); every third drawn list may repeat ids and be as long as, or longer than, the number of spines
    o['ids'] = draw(st.one_of(st.none(), st.lists(st.integers(0, n - 1), max_size=n, unique=True),
                              st.lists(st.integers(0, n - 1), max_size=n, unique=True),
                              st.lists(st.integers(0, n - 1), min_size=min(2, n), max_size=n + 2)))
    o['tys'] = draw(st.one_of(st.none(), st.none(), st.lists(st.sampled_from(sorted(set(types))), max_size=3, unique=True)))
    o['inc'] = draw(st.one_of(st.none(), st.lists(st.sampled_from(cats.ALL), max_size=5, unique=True),
                              st.just(['CORE', 'STRUCTURAL', 'SIGNATURES', 'BARLINES']),
                              st.just(['ALTERATION', 'DURATION', 'HEADER', 'CHORD', 'BARLINES']),
                              st.just(['DECORATION', 'PITCH', 'STRUCTURAL', 'CHORD'])))
    o['exc'] = draw(st.one_of(st.none(), st.lists(st.sampled_from(cats.ALL), max_size=3, unique=True),
                              st.just(['PITCH']), st.just(['DURATION', 'DECORATION'])))
    o['enc'] = draw(st.one_of(st.none(), st.sampled_from(encs)))
    o['explicit'] = draw(st.lists(st.sampled_from(['ids', 'tys', 'inc', 'exc', 'enc', 'smn', 'instr']), max_size=4, unique=True))
    o['shape'] = draw(st.sampled_from(['list', 'set', 'tuple']))
    return o


@st.composite
def cases(draw, prof):
    if prof == 'noclef':
        # no clef anywhere: an agnostic export is still defined whenever the selection leaves no pitch to convert
        from .. import grammar as G
        doc = draw(D.documents(D.profile('full', kern_weight=2, hidden_bars=True)))
        for row in doc['rows']:
            if 'c' in row:
                row['c'] = [G.nullinterp_cell() if c['k'] == 'interp' and c.get('sig') == 'clef' else c for c in row['c']]
        opts = [draw(option_sets(len(doc['types']), doc['types'], ['akern', 'aekern'])) for _ in range(8)]
        nonkern = sorted({t for t in doc['types'] if t not in ('**kern', '**root')})
        for i, o in enumerate(opts):
            o['enc'] = o['enc'] or ('akern', 'aekern')[i % 2]
            if i % 3 == 0:
                o['exc'] = sorted(set(o['exc'] or []) | {'PITCH'})
            elif i % 3 == 1 and nonkern:
                o['tys'] = nonkern[:2]
            elif o['inc'] is None:
                o['inc'] = ['DURATION', 'BARLINES', 'HEADER', 'LYRICS']
        return {'doc': doc, 'opts': opts, 'prof': prof}
    doc = draw(D.documents(D.profile(prof, kern_weight=2 if prof == 'sep' else 3, hidden_bars=True)))
    encs = list(K.ENCODINGS) if prof == 'agnostic' else ['kern', 'ekern', 'bkern', 'bekern']
    opts = [draw(option_sets(len(doc['types']), doc['types'], encs)) for _ in range(8)]
    return {'doc': doc, 'opts': opts, 'prof': prof}


def cat_arg(names, shape):
    cs = [TC[n] for n in names]
    return cs if shape == 'list' else tuple(cs) if shape == 'tuple' else set(cs)


def kwargs_for(o, kdoc, explicit=True):
    kw = {}
    ex = o['explicit'] if explicit else []
    if o['ids'] is not None:
        kw['spine_ids'] = list(o['ids'])
    elif 'ids' in ex:
        kw['spine_ids'] = kdoc.get_spine_ids()
    if o['tys'] is not None:
        kw['spine_types'] = list(o['tys'])
    elif 'tys' in ex:
        kw['spine_types'] = list(kp.core.tokens.HEADERS)
    if o['inc'] is not None:
        kw['include'] = cat_arg(o['inc'], o['shape'])
    elif 'inc' in ex:
        kw['include'] = TC.all()
    if o['exc'] is not None:
        kw['exclude'] = cat_arg(o['exc'], o['shape'])
    elif 'exc' in ex:
        kw['exclude'] = [] if o['shape'] == 'list' else set()
    if o['enc'] is not None:
        kw['encoding'] = K.ENCODINGS[o['enc']]
    elif 'enc' in ex:
        kw['encoding'] = kp.Encoding.normalizedKern
    if 'smn' in ex:
        kw['show_measure_numbers'] = False
    if 'instr' in ex:
        kw['instruments'] = None
    return kw


def check(case):
    doc = case['doc']
    text = S.render(doc)
    kdoc = K.loads_clean(text)
    a = S.analyze(doc)
    base = X.aligned(doc, kdoc, a)
    if case['prof'] == 'sep':
        # text cells may contain '@' / middle dot here (KF-SEP is tracked under C03): take, per encoding, what the
        # UNFILTERED export writes for every non-note cell; a selection must not change a cell it keeps
        encs_ = ['kern', 'ekern', 'bkern', 'bekern']
        grids_ = {e: K.grid(K.dumps(kdoc, encoding=K.ENCODINGS[e])) for e in encs_}
        if any(len(g) != len(base) or any(len(x) != len(y) for x, y in zip(g, base)) for g in grids_.values()):
            # a text cell reduced to nothing by the separator stripping of KF-SEP can empty a whole row in one
            # encoding only; that is the known finding, not an option interaction: nothing to compare here
            return Result(classes=['profile=sep', 'sep-shapes-differ'])
        for ri, row in enumerate(base):
            for k, c in enumerate(row):
                if 'members' not in c and c['kind'] != 'header':
                    c['text_by_enc'] = {e: grids_[e][ri][k] for e in encs_}
    types = doc['types']
    keys, evals = [], 0
    default_text = K.dumps(kdoc)
    shared_exporter = kp.Exporter()  # one Exporter object reused for every option set of this document
    # a caller-owned default ExportOptions object used first for a one-spine document and then for this one: it must
    # not be rewritten by an export, and it must keep meaning "defaults"
    opts0 = kp.ExportOptions()
    before = repr(sorted((k, sorted(v, key=repr) if isinstance(v, (set, list)) else v) for k, v in vars(opts0).items()))
    small, _ = kp.loads('**kern\n*clefG2\n4c\n*-\n')
    kp.Exporter().export_string(small, opts0)
    via_opts = kp.Exporter().export_string(kdoc, opts0)
    after = repr(sorted((k, sorted(v, key=repr) if isinstance(v, (set, list)) else v) for k, v in vars(opts0).items()))
    if via_opts != default_text:
        raise Bad('reused-options', f'a default ExportOptions object used for another document before gives a different export than dumps(doc)\n--- dumps\n{default_text}--- reused options\n{via_opts}')
    if before != after:
        raise Bad('options-mutated', f'export_string rewrote the caller\'s ExportOptions: {before} -> {after}')
    classes_extra = set()
    for oi, o in enumerate(case['opts']):
        enc = o['enc'] or 'kern'
        sel = cats.selected(o['inc'], o['exc'])
        ids = None if o['ids'] is None else set(o['ids'])
        tys = None if o['tys'] is None else set(o['tys'])
        fP = lambda r: X.P(r, ids, tys, types)  # noqa
        fF = lambda r: X.F(r, sel)  # noqa
        fT = lambda r: X.T(r, enc)  # noqa
        renders = []
        try:
            for order in itertools.permutations((fP, fF, fT)):
                r = base
                for f in order:
                    r = f(r)
                renders.append(X.render(r))
        except Bad as b_:
            if case['prof'] == 'noclef' and b_.sig == 'no-clef':
                # a pitch is left and there is no clef: the outcome of this export is not defined - it is made all the
                # same (it usually raises half-way through the rows) and must leave nothing behind for the next ones
                classes_extra.add('pitch-without-clef-skipped')
                try:
                    kp.dumps(kdoc, **kwargs_for(o, kdoc, explicit=True))
                except Exception:  # noqa
                    classes_extra.add('undefined-export-raised')
                continue
            raise
        if any(r != renders[0] for r in renders[1:]):
            raise Bad('harness-orders-disagree', 'kv/xform.py: the six composition orders disagree (harness defect)')
        kw = kwargs_for(o, kdoc, explicit=True)
        tag = K._kwrepr(kw)
        got = K.dumps(kdoc, **kw)
        evals += 1
        diff = X.same(K.grid(got), renders[0])
        if diff:
            raise Bad('composition', f'dumps({tag}): {diff}\n--- source\n{text}--- got\n{got}', opts=o)
        okw = {('kern_type' if k == 'encoding' else k): v for k, v in kw.items()}
        try:
            got_shared = shared_exporter.export_string(kdoc, kp.core.generic.Generic.parse_options_to_ExportOptions(**okw))
        except Exception as e:  # noqa
            raise Bad('shared-exporter-raised', f'Exporter.export_string({tag}) raised {e!r}', opts=o)
        evals += 1
        if got_shared != got:
            raise Bad('shared-exporter', f'a reused Exporter object gives a different export for ({tag}) than kernpy.dumps\n--- dumps\n{got}--- reused Exporter\n{got_shared}', opts=o)
        if oi % 3 == 0:
            got_file = K.via_dump_file(kdoc, expect=got, **kw)
            evals += 1
            if got_file != got:
                raise Bad('dump-file', f'kernpy.dump({tag}) writes a different text than kernpy.dumps returns\n--- dumps\n{got}--- file\n{got_file}', opts=o)
        if oi % 3 == 1:
            got_ro = K.via_reused_options(kdoc, **kw)
            evals += 1
            if got_ro != got:
                raise Bad('reused-options', f'an ExportOptions object ({tag}) used for other documents before gives a different export than dumps\n--- dumps\n{got}--- reused options\n{got_ro}', opts=o)
        if o['explicit']:
            kw2 = kwargs_for(o, kdoc, explicit=False)
            got2 = K.dumps(kdoc, **kw2)
            evals += 1
            if got2 != got:
                raise Bad('explicit-default', f'explicit defaults {o["explicit"]} change the output: dumps({tag}) != dumps({K._kwrepr(kw2)})\n--- explicit\n{got}--- omitted\n{got2}', opts=o)
        # each option alone
        singles = []
        if case['prof'] in ('sep', 'noclef'):
            if case['prof'] == 'noclef':
                keys.append([text, sorted(o['ids']) if o['ids'] is not None else None, o['tys'], sorted(sel), enc])
            continue  # the single-option clauses compare with the kern text of the model, which KF-SEP alters
        if ids is not None or tys is not None:
            kw1 = {k: v for k, v in kwargs_for(o, kdoc, False).items() if k in ('spine_ids', 'spine_types')}
            g1 = K.dumps(kdoc, **kw1)
            evals += 1
            d1 = X.same(K.grid(g1), X.render(X.T(fP(base), 'kern')))
            if d1:
                raise Bad('single-projection', f'dumps({K._kwrepr(kw1)}): {d1}', opts=o)
            singles.append(g1 != default_text)
        if o['inc'] is not None or o['exc'] is not None:
            kw1 = {k: v for k, v in kwargs_for(o, kdoc, False).items() if k in ('include', 'exclude')}
            g1 = K.dumps(kdoc, **kw1)
            evals += 1
            d1 = X.same(K.grid(g1), X.render(X.T(fF(base), 'kern')))
            if d1:
                raise Bad('single-filter', f'dumps({K._kwrepr(kw1)}): {d1}', opts=o)
            singles.append(g1 != default_text)
        if o['enc'] is not None:
            g1 = K.dumps(kdoc, encoding=K.ENCODINGS[enc])
            evals += 1
            d1 = X.same(K.grid(g1), X.render(fT(base)))
            if d1:
                raise Bad('single-encoding', f'dumps(encoding={enc}): {d1}', opts=o)
            singles.append(g1 != default_text)
        if len(singles) >= 2 and sum(singles) >= 2:
            keys.append([text, sorted(o['ids']) if o['ids'] is not None else None, o['tys'], sorted(sel), enc])
    r = Result(nontrivial=bool(keys), classes=K.doc_classes(doc, a) + ['profile=' + case['prof']] + sorted(classes_extra), evals=evals,
               sample={'document': text, 'options': case['opts'][:2]})
    r.keys = keys
    return r


def run(ctx):
    n = 40 if ctx.quick else 900
    ctx.run_hypothesis(cases('full'), check, max_examples=n, label='full')
    ctx.run_hypothesis(cases('agnostic'), check, max_examples=n, salt=1, label='agnostic')
    ctx.run_hypothesis(cases('sep'), check, max_examples=max(12, n // 3), salt=2, label='separator-characters-in-text')
    ctx.run_hypothesis(cases('noclef'), check, max_examples=max(12, n // 3), salt=3, label='agnostic-without-clef-and-without-pitch')


def replay(case):
    return check(case)
