"""C06 - spine selection is column projection."""
import itertools

import kernpy as kp
from hypothesis import strategies as st

from .. import docgen as D, kdoc as K, spine as S
from ..common import Bad, Result

ID = 'C06'
SHARDS_QUICK = 4
RULE = ('Hypothesis documents (profile "full" with extra split/join weight, up to 4 spines and 3 sub-spines per spine) x '
        'EVERY subset of spine ids (2^n), EVERY subset of the spine types present, and for each document 6 drawn '
        '(ids, types) combinations given together (plus absent ids / absent types), passed as list, tuple, set or '
        'frozenset in turn.  Oracle: the column -> spine map of '
        'kv/spine.py applied to dumps(doc): unselected columns deleted, all-null rows dropped, text equality; '
        'kernpy.spine_types(doc, headers) must equal the first line of that projection ([] for no headers); every third '
        'selection is also exported with an Exporter that exported other documents before, with an ExportOptions object '
        'that was used for narrower documents before, and (every seventh) through kernpy.dump to a file: same text.  An '
        'evaluation is one (document, selection); non-trivial when a split spine is among the deleted or the kept ones '
        'and at least one row disappears or the selection is a proper non-empty subset.'
        '  The repository\'s own sample scores (test/resource_dir, >= 2 spines) add a model-free clause: every drawn selection of spine ids, and '
        'the **kern type, alone and together with an encoding / a category selection, equals the column projection of kernpy\'s export made '
        'without the selection (columns from the text-level spine tracker kv/humdrum.py columns).')
ASSUMPTIONS = ['kv/spine.py column tracking (see C02)', 'the full export is aligned with the abstract document (C03)']


@st.composite
def cases(draw):
    doc = draw(D.documents(D.profile('full', min_spines=2, kern_weight=1, hidden_bars=True)))
    n = len(doc['types'])
    combos = []
    for _ in range(6):
        ids = draw(st.lists(st.integers(0, n + 1), max_size=n + 1, unique=True))
        tys = draw(st.lists(st.sampled_from(sorted(set(doc['types'])) + ['**mens', '**nope']), max_size=4, unique=True))
        combos.append([ids, tys])
    return {'doc': doc, 'combos': combos}


def project(full, exp_rows, a, types, ids=None, tys=None):
    out = []
    for g, (ri, cells) in zip(full, exp_rows):
        keep = [c for c, sp in zip(g, a.spines[ri])
                if (ids is None or sp in ids) and (tys is None or types[sp] in tys)]
        if keep and not all(c in ('.', '*', '') for c in keep):
            out.append('\t'.join(keep))
    return '\n'.join(out) + ('\n' if out else '')


def check(case):
    doc = case['doc']
    text = S.render(doc)
    kdoc = K.loads_clean(text)
    a = S.analyze(doc)
    types = doc['types']
    n = len(types)
    full_text = K.dumps(kdoc)
    full = K.grid(full_text)
    exp_rows = K.expected_rows(doc)
    if len(full) != len(exp_rows) or any(len(g) != len(c) for g, (_, c) in zip(full, exp_rows)):
        raise Bad('alignment', 'full export is not aligned with the document (C03)')
    split_spines = {a.spines[i][k] for i, k, c in S.cells(doc) if c['t'] in ('*^', '*v')}
    keys, evals = [], 0
    primed = K.primed_exporter()
    ex2, opts2 = kp.Exporter(), kp.ExportOptions()  # one Exporter, one options object whose selection is rewritten per call

    def one(ids, tys):
        nonlocal evals
        kw = {}
        # the selections are documented as Iterable / Sequence: lists, tuples and sets are used in turn
        shape = (list, tuple, set, frozenset, list)[evals % 5]
        if ids is not None:
            kw['spine_ids'] = shape(ids)
        if tys is not None:
            kw['spine_types'] = (list, tuple, list, set)[evals % 4](tys)
        got = K.dumps(kdoc, **kw)
        evals += 1
        if evals % 3 == 0 and K.via_primed(primed, kdoc, **kw) != got:
            raise Bad('exporter-with-a-past', f'spine_ids={ids} spine_types={tys}: an Exporter object that exported other documents and selections before gives a different text than dumps')
        if evals % 3 == 1 and K.via_reused_options(kdoc, **kw) != got:
            raise Bad('options-with-a-past', f'spine_ids={ids} spine_types={tys}: an ExportOptions object that was used for other (narrower) documents before gives a different text than dumps')
        if evals % 3 == 2:
            opts2.spine_ids = None if ids is None else list(ids)
            opts2.spine_types = list(kp.core.tokens.HEADERS) if tys is None else list(tys)
            if ex2.export_string(kdoc, opts2) != got:
                raise Bad('options-object-rewritten', f'spine_ids={ids} spine_types={tys}: one Exporter with one ExportOptions object whose selection is changed between exports gives a different text than dumps')
        if evals % 7 == 2 and K.via_dump_file(kdoc, expect=got, **kw) != got:
            raise Bad('dump-file', f'spine_ids={ids} spine_types={tys}: kernpy.dump writes a different text than dumps returns')
        exp = project(full, exp_rows, a, types, None if ids is None else set(ids), None if tys is None else set(tys))
        if got != exp:
            raise Bad('projection', f'spine_ids={ids} spine_types={tys}\n--- full\n{full_text}--- got\n{got}--- expected\n{exp}',
                      ids=ids, tys=tys)
        kept = {sp for sp in range(n) if (ids is None or sp in ids) and (tys is None or types[sp] in tys)}
        if 0 < len(kept) < n and split_spines:
            keys.append([text, sorted(kept)])
        return exp

    if one(None, None) != full_text:
        raise Bad('identity', 'no selection is not the full export')
    if one(list(range(n)), None) != full_text:
        raise Bad('identity-explicit', 'spine_ids=all is not the full export')
    for r in range(0, n + 1):
        for sub in itertools.combinations(range(n), r):
            one(list(sub), None)
    present = sorted(set(types))
    for r in range(0, len(present) + 1):
        for sub in itertools.combinations(present, r):
            exp = one(None, list(sub))
            st_ = kp.spine_types(kdoc, tuple(sub) if evals % 2 else list(sub))
            evals += 1
            first = exp.split('\n')[0].split('\t') if exp else []
            if st_ != first:
                raise Bad('spine-types-query', f'spine_types(doc, {list(sub)}) = {st_}, header line of the projection is {first}')
    # types that do not occur in the document: alone they select nothing (an empty list, not a list with an empty name),
    # next to present ones they change nothing
    absent = [t for t in ('**harm', '**mens', '**fing', '**nope') if t not in types]
    for ab in absent[:2]:
        for sub in ([ab], [ab, present[0]], [present[-1], ab], []):
            st_ = kp.spine_types(kdoc, list(sub) if evals % 2 else tuple(sub))
            evals += 1
            want = [t for t in types if t in sub]
            if st_ != want:
                raise Bad('spine-types-query-absent-type', f'spine_types(doc, {list(sub)}) = {st_!r}, expected {want!r} for a document with the spines {types}')
    if kp.spine_types(kdoc) != [t for t in types]:
        raise Bad('spine-types-default', f'spine_types(doc) = {kp.spine_types(kdoc)} for {types}')
    for ids, tys in case['combos']:
        one(ids, tys)
    # reversed / duplicated id lists select the same columns in the same (document) order
    one(list(reversed(range(n))), None)
    one([0, 0], None)
    r = Result(nontrivial=bool(keys), classes=K.doc_classes(doc, a), evals=evals,
               sample={'document': text, 'selections': 'all id subsets, all type subsets, ' + repr(case['combos'][:2])})
    r.keys = keys
    return r


def check_real(case):
    """a sample score of the repository: every drawn selection of spine ids / types, alone and together with a category
    selection and an encoding, is the column projection of kernpy's own export made WITHOUT the spine selection (columns
    from a text-level spine tracker over that export): projection commutes with the other options"""
    from .. import humdrum as H, realscores as RS
    try:
        kdoc, errs = kp.load(RS.path(case['real']))
    except Exception:  # noqa
        return Result(classes=['real-score-not-importable'])
    if errs:
        return Result(classes=['real-score-with-import-errors'])
    types = kp.spine_types(kdoc)
    n = len(types)
    if n < 2:
        return Result(classes=['real-score-single-spine'])
    TC = kp.TokenCategory
    others = [({}, 'default'), ({'encoding': kp.Encoding.eKern}, 'ekern'),
              ({'exclude': [TC.DECORATION, TC.SIGNATURES]}, 'filtered'), ({'encoding': kp.Encoding.bEkern, 'exclude': [TC.BARLINES]}, 'bekern-filtered')]
    sels = []
    for x, w in case['raw']:
        ids = sorted({(x >> (3 * j)) % n for j in range(1 + w)})
        sels.append(ids)
    sels += [[0], [n - 1], list(range(n)), []]
    evals = 0
    for okw, tag in others[:2 + (case['raw'][0][0] % 3)]:
        base = K.dumps(kdoc, what=f'{case["real"]} {tag}', **okw)
        rows, err = H.columns(base)
        if err:
            return Result(classes=['real-score-outside-the-validator'])
        if len(rows[0][1]) != n:
            return Result(classes=['real-score-with-spines-outside-the-default-export'])
        for ids in sels:
            got = K.dumps(kdoc, what=f'{case["real"]} {tag} spine_ids={ids}', spine_ids=list(ids), **okw)
            evals += 1
            exp = H.project(rows, set(ids))
            if got != exp:
                dl = next(((x, y) for x, y in zip(got.split('\n'), exp.split('\n')) if x != y), (got[-80:], exp[-80:]))
                raise Bad('projection', f'{case["real"]} [{tag}] spine_ids={ids}: differs from the projection of the export made without spine_ids; first difference {dl}')
        kern_ids = {k for k, t in enumerate(types) if t == '**kern'}
        got = K.dumps(kdoc, spine_types=['**kern'], **okw)
        evals += 1
        if got != H.project(rows, kern_ids):
            raise Bad('projection', f'{case["real"]} [{tag}] spine_types=[\'**kern\']: differs from the projection of the export made without spine_types')
    if kp.spine_types(kdoc, ['**kern']) != [t for t in types if t == '**kern']:
        raise Bad('spine-types-query', f'{case["real"]}: spine_types(doc, [\'**kern\']) = {kp.spine_types(kdoc, ["**kern"])}')
    return Result(nontrivial=True, evals=evals, classes=['real-score', f'spines={min(n, 5)}'], sample={'file': case['real'], 'selections': sels[:3]},
                  key=['real', case['real'], case['raw']])


def run(ctx):
    from .. import realscores as RS
    rc = RS.cases(max_bytes=20000, nranges=3)
    if rc is not None:
        ctx.run_hypothesis(rc, check_real, max_examples=max(3, (20 if ctx.quick else 400) // getattr(ctx, 'nshards', 1)), salt=9, label='real-scores')
    ctx.run_hypothesis(cases(), check, max_examples=90 if ctx.quick else 1500, label='projection')


def replay(case):
    if 'real' in case:
        return check_real(case)
    return check(case)
