"""C15 - transposing a document moves pitches and nothing else."""
import kernpy as kp
from hypothesis import strategies as st

from .. import docgen as D, kdoc as K, pitch as M, spine as S
from ..common import Bad, Result, Problem

ID = 'C15'
SHARDS_QUICK = 4
RULE = ('Hypothesis documents x one of the 40 interval names x up/down (both drawn per case, every case re-imports the '
        'source).  Claimed core (profile transpose-core): single notes without explicit accidental, rests, barlines, '
        'interpretations, comments, splits/joins, non-kern spines (**text, **dynam, **dyn, **harm, **mxhm, **fing), and '
        'documents without any **kern spine (profile no-kern: nothing may change, nothing may raise).  '
        'Explored profiles tracked as findings: "accidentals" (notes with #, -, ##, --) and "chords".  Oracle: the '
        'eKern export of doc.to_transposed(interval, direction) must equal the source eKern export cell for cell except '
        'that the pitch part of every note is the kv/pitch.py (C09) transposition of the source pitch; decorations, '
        'durations, rests and all other cells identical; the measure queries (count, iteration, first measure, single-measure '
        'excerpts) answer the same for both documents; when the model says some result needs more than two '
        'accidentals the call may raise (then nothing else is checked); the source document\'s export before and after '
        'the call must be equal; transposing the result back by the same interval in the opposite direction must '
        'export the source text; unknown interval names and directions raise ValueError.  Non-trivial: interval other '
        'than P1, at least two notes in different octaves and at least one non-kern spine.')
ASSUMPTIONS = ['kv/pitch.py as validated against kernpy.transpose by C09', '**root spines are not generated: whether harmonic roots '
               'are "notes" to be transposed is not stated by the property']
TYPES = ['**kern', '**text', '**dynam', '**dyn', '**harm', '**mxhm', '**fing']
PROFILES = {
    'core': dict(types=TYPES, acc=False, chords=False),
    'accidentals': dict(types=TYPES, acc='plain', chords=False),
    'chords': dict(types=TYPES, acc=False, chords=True, rest_in_chord=False),
    # documents without any **kern spine hold no pitch: every interval must return an identical document
    'no-kern': dict(types=TYPES[1:], acc=False, chords=False, force_kern=False),
}


@st.composite
def cases(draw, prof):
    P = dict(PROFILES[prof])
    plain = P.get('acc') == 'plain'
    if plain:
        P['acc'] = True
    # a supported clef in force everywhere, so that the agnostic encodings of the result can be compared as well
    doc = draw(D.documents(D.profile('full', kern_weight=4, force_clef=True, supported_clefs_only=True, hidden_bars=True, **P)))
    if plain:
        # plain accidentals only: no natural sign, no display suffix
        for _, _, c in S.cells(doc):
            if 'notes' in c:
                for n in c['notes']:
                    if n['acc'] and (n['acc'].rstrip('#-') or n['acc'][0] == 'n'):
                        n['acc'] = n['acc'][0] if n['acc'][0] in '#-' else '#'
                from .. import grammar as G
                c['t'] = ' '.join(G.render_member(n, lay) for n, lay in zip(c['notes'], c['lay']))
    return {'doc': doc, 'interval': draw(st.sampled_from(M.INTERVAL_NAMES)), 'dir': draw(st.sampled_from(['up', 'down'])), 'prof': prof}


def model_pitch(n, name, direction):
    l, o = M.parse_letters(n['p'])
    alt = n['acc'].count('#') - n['acc'].count('-')
    l1, a1, o1 = M.transpose(l, alt, o, name, direction)
    return M.spell(l1, a1, o1) if -2 <= a1 <= 2 else None


def check(case):
    doc, name, direction = case['doc'], case['interval'], case['dir']
    opposite = 'down' if direction == 'up' else 'up'
    text = S.render(doc)
    d = K.loads_clean(text)
    a = S.analyze(doc)
    before = K.dumps(d)
    before_e = K.dumps(d, encoding=kp.Encoding.eKern)
    notes = [n for _, _, c in S.cells(doc) if 'notes' in c for n in c['notes'] if n['p'] != 'r']
    spellable = all(model_pitch(n, name, direction) is not None for n in notes)
    classes = K.doc_classes(doc, a) + ['profile=' + case['prof'], 'dir=' + direction, 'spellable' if spellable else 'unspellable']
    problems = []
    for bad_args, why in ((('X9', 'up'), 'unknown interval'), ((name, 'sideways'), 'unknown direction'), (('p5', 'up'), 'unknown interval')):
        try:
            d.to_transposed(*bad_args)
        except ValueError:
            continue
        except Exception as e:  # noqa
            raise Bad('wrong-exception', f'to_transposed{bad_args} ({why}) raised {type(e).__name__}')
        raise Bad('not-rejected', f'to_transposed{bad_args} ({why}) was accepted')
    try:
        t = d.to_transposed(name, direction)
    except Exception as e:  # noqa
        if spellable:
            inter = any(n['acc'] and not -2 <= M.transpose(*M.parse_letters(n['p'])[:1], 0, M.parse_letters(n['p'])[1], name, direction)[1] <= 2
                        for n in notes)
            raise Bad('raised', f'to_transposed({name!r}, {direction!r}) raised {type(e).__name__}: {e} although every result is spellable\n{text}',
                      acc_intermediate_unspellable=inter)
        return Result(classes=classes + ['call-raised'], sample=text)
    if not spellable:
        # the call was entitled to fail and did not: the notes whose result IS spellable, and everything that is not a
        # pitch, are still held to the property; the unspellable notes and the way back are left open (as in C09)
        classes = classes + ['unspellable-returned']
    out_e = K.dumps(t, 'dumps(transposed)', encoding=kp.Encoding.eKern)
    out_k = K.dumps(t, 'dumps(transposed)')
    # the measure structure belongs to "nothing else": same measure index, same answers to the measure queries
    def measure_view(x):
        try:
            m = x.measures_count()
            return [m, list(x), x.get_first_measure(), kp.dumps(x, from_measure=1, to_measure=1).count('\n') if m else None,
                    kp.dumps(x, from_measure=m, to_measure=m).count('\n') if m else None]
        except Exception as e_:  # noqa
            return ['EXC', type(e_).__name__]
    mv0, mv1 = measure_view(d), measure_view(t)
    if mv0 != mv1:
        problems.append(Problem('measure-index-changed', f'measures_count / iteration / first measure / size of the first and last '
                                                         f'single-measure excerpts: source {mv0}, transposed {mv1}', {}))
    g0, g1 = K.grid(before_e), K.grid(out_e)
    src = K.expected_rows(doc)
    if len(g0) != len(src):
        raise Bad('alignment', 'source export is not aligned with the document (C03)')
    if len(g1) != len(g0) or any(len(x) != len(y) for x, y in zip(g0, g1)):
        raise Bad('grid-changed', f'transposed document has a different grid\n--- source\n{before_e}--- transposed\n{out_e}')
    for (ri, cells), r0, r1 in zip(src, g0, g1):
        for c, x, y in zip(cells, r0, r1):
            if 'notes' not in c:
                if x != y:
                    problems.append(Problem('non-note-changed', f'cell {x!r} became {y!r} ({name} {direction})', {}))
                continue
            ms0, ms1 = x.split(' '), y.split(' ')
            if len(ms0) != len(ms1):
                problems.append(Problem('chord-size', f'{x!r} -> {y!r}', {}))
                continue
            for n, m0, m1 in zip(c['notes'], ms0, ms1):
                pd0, de0 = K.split_member(m0)
                pd1, de1 = K.split_member(m1)
                if n['p'] == 'r':
                    if m0 != m1:
                        problems.append(Problem('rest-changed', f'{m0!r} -> {m1!r}', {}))
                    continue
                exp_p = model_pitch(n, name, direction)
                if exp_p is None:
                    continue
                dur = [p for p in pd0 if K.lexcat(p) == 'DURATION']
                exp_kern = ''.join(dur) + exp_p + ''.join(de0)
                got_kern = K.strip_sep(m1)
                if de1 != de0 or [p for p in pd1 if K.lexcat(p) == 'DURATION'] != dur:
                    problems.append(Problem('duration-or-signifier-changed', f'{m0!r} -> {m1!r} ({name} {direction})', {}))
                elif got_kern != exp_kern:
                    # what transposing the bare letters (ignoring the accidental) gives - by kernpy's own pitch
                    # transposer, because for unspellable intermediates the model leaves the value open
                    try:
                        letters_only = kp.transpose(n['p'], kp.IntervalsByName[name], direction=direction)
                    except Exception:  # noqa
                        letters_only = None
                    problems.append(Problem('wrong-pitch', f'{m0!r} transposed {name} {direction} is {m1!r}; model pitch {exp_p!r}\n{text}',
                                            {'src': m0, 'got': got_kern, 'exp': exp_kern, 'is_chord': len(c['notes']) > 1, 'unchanged': m0 == m1,
                                             'acc': n['acc'],
                                             'acc_symptom': letters_only is not None and bool(n['acc']) and got_kern == ''.join(dur) + letters_only + n['acc'] + ''.join(de0)}))
    after = K.dumps(d, 'dumps(source) after the call')
    if after != before:
        problems.append(Problem('source-changed', f'the source document exports differently after to_transposed({name}, {direction})\n--- before\n{before}--- after\n{after}',
                                {'after_equals_transposed': after == out_k, 'p1': name == 'P1'}))
    from ..grammar import ACC_SUFFIX_SIGS
    ambiguous = any(set(n['sigs']) & ACC_SUFFIX_SIGS for n in notes)  # X Z i j after a NEW accidental re-read as its display mark
    if spellable and not ambiguous and not [p for p in problems if p.sig != 'source-changed']:
        # the plain encodings of the result equal those of the document one gets by importing its kern export
        rel, rerr = kp.loads(out_k)
        if rerr:
            problems.append(Problem('transposed-reimport', f'kern export of the transposed document re-imports with errors {[(x.line, x.encoding) for x in rerr]}', {}))
        else:
            for enc in ('kern', 'bkern', 'akern'):
                try:
                    want = kp.dumps(rel, encoding=K.ENCODINGS[enc])
                except Exception:  # noqa  (agnostic export needs supported clefs everywhere)
                    continue
                try:
                    got_ = kp.dumps(t, encoding=K.ENCODINGS[enc])
                except Exception as e:  # noqa
                    problems.append(Problem('transposed-export-raised', f'{enc} export of the transposed document raised {e!r}', {}))
                    continue
                if got_ != want:
                    dl = [(x, y) for x, y in zip(got_.split('\n'), want.split('\n')) if x != y][:3]
                    problems.append(Problem('transposed-encoding-differs', f'{enc} export of the transposed document differs from the same text imported: {dl}', {}))
    if spellable and not [p for p in problems if p.sig != 'source-changed']:
        try:
            back = t.to_transposed(name, opposite)
        except Exception as e:  # noqa
            raise Bad('back-raised', f'transposing back raised {e!r}')
        bk = K.dumps(back, 'dumps(back)')
        if bk != before:
            problems.append(Problem('back-differs', f'{name} {direction} then {opposite} does not restore the source export\n--- source\n{before}--- back\n{bk}', {}))
    octs = {M.parse_letters(n['p'])[1] for n in notes}
    nt = name != 'P1' and len(octs) >= 2 and any(t_ != '**kern' for t_ in doc['types'])
    r = Result(nontrivial=nt, classes=classes, sample={'document': text, 'interval': name, 'direction': direction},
               key=[text, name, direction])
    r.problems = problems
    return r


def f_shared(case, p):
    """KF-C15-SHARED: clone() copies the tree object shallowly, so to_transposed rewrites the nodes of the source: after
    the call the source exports exactly what the transposed document exports"""
    if p.sig == 'source-changed':
        return p.data.get('after_equals_transposed') is True
    if p.sig == 'back-differs':
        return False
    return False


def f_acc(case, p):
    """KF-C15-ACC: only the PITCH sub-token is transposed (as if it had no accidental) and the old ALTERATION is
    re-appended: observed == transpose(letters) + original accidental text"""
    if p.sig == 'raised':
        # same root cause: the bare letters of a note with an accidental are not transposable although the note is
        return p.data.get('acc_intermediate_unspellable') is True
    return p.sig == 'wrong-pitch' and p.data.get('acc_symptom') is True and not p.data.get('is_chord')


def f_chord(case, p):
    """KF-C15-CHORD: notes inside chords are left untouched"""
    return p.sig == 'wrong-pitch' and p.data.get('is_chord') is True and p.data.get('unchanged') is True


FINDINGS = {'KF-C15-SHARED': f_shared, 'KF-C15-ACC': f_acc, 'KF-C15-CHORD': f_chord}


def run(ctx):
    # one long score (tree depth == number of rows): the call must not depend on the size of the document
    if ctx.shard == 0:
        ctx.check_all([{'doc': D.long_document(1100 + 37 * (ctx.seed % 11), ctx.seed), 'interval': 'M2', 'dir': 'up', 'prof': 'long'},
                       {'doc': D.long_document(1250, ctx.seed + 1, with_text=False), 'interval': 'P5', 'dir': 'down', 'prof': 'long'}], check)
    n = 80 if ctx.quick else 2500
    ctx.run_hypothesis(cases('core'), check, max_examples=n, label='core')
    ctx.run_hypothesis(cases('accidentals'), check, max_examples=max(20, n // 5), salt=1, label='accidentals')
    ctx.run_hypothesis(cases('chords'), check, max_examples=max(20, n // 5), salt=2, label='chords')
    ctx.run_hypothesis(cases('no-kern'), check, max_examples=max(12, n // 20), salt=3, label='no-kern')


def replay(case):
    return check(case)
