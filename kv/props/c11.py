"""C11 - category algebra follows the documented tree.  Exhaustive over small sets + random larger sets."""
import itertools
import re

import kernpy as kp
from hypothesis import strategies as st

from .. import cats
from ..common import Bad, Result

ID = 'C11'
LEVEL = 'exploration'
SHARDS_THOROUGH = 16
SHARDS_QUICK = 8
TC = kp.TokenCategory
HM = kp.TokenCategoryHierarchyMapper
RULE = ('Exhaustive: the hierarchy literal and the printed tree() against the README tree (forest, 37 categories once '
        'each); children/nodes/leaves for all 37; is_child for all 37x37 ordered pairs; valid() for ALL include/exclude '
        'pairs of subsets of size <=2 (704 x 704 = 495,616), match() for all 37 categories on every pair in the '
        'thorough tier and on a seed-dependent 1/16 of the pairs in the quick tier; None arguments; invalid members. '
        'Random: Hypothesis-generated larger sets (size 0..10, in a quarter of the draws 11..37, and the sets "all top-level categories", "all but one", "all non-top-level") in the four argument shapes set/list/tuple/bare member, '
        'through TokenCategory, TokenCategoryHierarchyMapper and the export-option entry point '
        '(Generic.parse_options_to_ExportOptions); and histories in which ONE include and ONE exclude collection owned by the caller are '
        'handed to valid/match/export options again and again and edited in place (add, remove, clear) between the calls.  A case is one include set paired with every '
        'exclude set (exhaustive part) or one (include, exclude, shape) triple (random part); an (include, exclude) pair '
        'is non-trivial when the selection is neither empty nor everything and the exclusion actually removes '
        'something from the inclusion closure; distinct_nontrivial counts such pairs.')
ASSUMPTIONS = ['kv/cats.py is a faithful hand transcription of the tree printed in README.md',
               'leaves(x) of a leaf category is the empty set (the subtree below x has no nodes)']

NAMES = cats.ALL
SMALL = [()] + [(a,) for a in NAMES] + [tuple(p) for p in itertools.combinations(NAMES, 2)]
assert len(SMALL) == 704


def cat(n):
    return TC[n]


def names(s):
    return sorted(c.name for c in s)


def check_structure(case):
    """forest + per-category queries + all ordered pairs"""
    enum_names = [c.name for c in TC]
    if sorted(enum_names) != sorted(NAMES):
        raise Bad('enum', f'TokenCategory members differ from the documented 37: {sorted(set(enum_names) ^ set(NAMES))}')
    if names(TC.all()) != sorted(NAMES) or names(HM.all()) != sorted(NAMES):
        raise Bad('all', 'all() is not the 37 documented categories')
    # hierarchy literal: forest, each once, same parents
    seen = {}

    def walk(tree, parent):
        for k, sub in tree.items():
            if k.name in seen:
                raise Bad('forest', f'{k.name} occurs more than once in the hierarchy')
            seen[k.name] = parent
            walk(sub, k.name)
    walk(HM.hierarchy, None)
    if seen != cats.PARENT:
        diff = {k: (seen.get(k), cats.PARENT.get(k)) for k in set(seen) | set(cats.PARENT) if seen.get(k) != cats.PARENT.get(k)}
        raise Bad('hierarchy', f'parent map differs from README tree: {diff}')
    # printed tree
    printed = {}
    stack = []
    for line in TC.tree().split('\n')[1:]:
        m = re.match(r'^((?:│   |    )*)(?:├── |└── )(?:TokenCategory\.)?(\w+)$', line)
        if not m:
            raise Bad('tree-format', f'unparseable tree() line {line!r}')
        depth = len(m.group(1)) // 4
        stack = stack[:depth]
        printed[m.group(2)] = stack[-1] if stack else None
        stack.append(m.group(2))
    if printed != cats.PARENT:
        raise Bad('tree-print', 'tree() output does not describe the README tree')
    for n in NAMES:
        c = cat(n)
        for api, label in ((TC, 'TokenCategory'), (HM, 'Mapper')):
            ch = api.children(c)
            if names(ch) != sorted(cats.CHILDREN[n]):
                raise Bad('children', f'{label}.children({n}) = {names(ch)}, tree says {sorted(cats.CHILDREN[n])}')
            nd = api.nodes(c)
            if names(nd) != sorted(cats.DESC[n]):
                raise Bad('nodes', f'{label}.nodes({n}) = {names(nd)}, tree says {sorted(cats.DESC[n])}')
            lv = api.leaves(c)
            if names(lv) != sorted(cats.LEAVES[n]):
                raise Bad('leaves', f'{label}.leaves({n}) = {names(lv)}, tree says {sorted(cats.LEAVES[n])}')
    # what a query returns belongs to the caller: editing it must not change later answers
    for n in NAMES:
        c = cat(n)
        for api in (TC, HM):
            for fn in (api.children, api.nodes, api.leaves):
                r = fn(c)
                if isinstance(r, (set, list)):
                    try:
                        r.clear() if n != 'CORE' else r.add(TC.OTHER) if isinstance(r, set) else r.append(TC.OTHER)
                    except Exception:  # noqa  (an immutable result is fine)
                        pass
    v = TC.valid(include={TC.CORE}, exclude={TC.NOTE})
    if isinstance(v, set):
        v.clear()
    a_ = TC.all()
    if isinstance(a_, set):
        a_.discard(TC.CORE)
    for n in NAMES:
        c = cat(n)
        if names(TC.nodes(c)) != sorted(cats.DESC[n]) or names(TC.children(c)) != sorted(cats.CHILDREN[n]) or names(TC.leaves(c)) != sorted(cats.LEAVES[n]):
            raise Bad('result-aliased', f'after the caller edited the sets returned by earlier queries, nodes/children/leaves({n}) changed')
    if names(TC.all()) != sorted(NAMES) or names(TC.valid(include={TC.CORE}, exclude={TC.NOTE})) != sorted(cats.selected(['CORE'], ['NOTE'])):
        raise Bad('result-aliased', 'after the caller edited returned sets, all()/valid() changed')
    for a in NAMES:
        for b in NAMES:
            exp = b in cats.DESC_STAR[a]
            got = TC.is_child(child=cat(b), parent=cat(a))
            got2 = HM.is_child(parent=cat(a), child=cat(b))
            if got != exp or got2 != exp:
                raise Bad('is_child', f'is_child(child={b}, parent={a}) = {got}/{got2}, tree says {exp}')
    # None arguments and identity
    if names(TC.valid()) != sorted(NAMES) or names(TC.valid(include=None, exclude=None)) != sorted(NAMES):
        raise Bad('valid-none', 'valid() with no arguments is not everything')
    if names(TC.valid(include=TC.all(), exclude=set())) != sorted(NAMES):
        raise Bad('valid-all', 'valid(include=all, exclude={}) is not everything')
    if TC.valid(include=set()) != set() or TC.valid(include=[]) != set():
        raise Bad('valid-empty', 'valid(include={}) is not empty')
    for n in NAMES:
        if TC.match(cat(n)) is not True:
            raise Bad('match-none', f'match({n}) without filters is not True')
    for bad in (['NOTE'], {1}, ('x',), 'CORE', 3):
        for kw in ('include', 'exclude'):
            for fn, label in ((lambda **k: TC.valid(**k), 'valid'), (lambda **k: TC.match(TC.NOTE, **k), 'match')):
                try:
                    fn(**{kw: bad})
                except ValueError:
                    continue
                except Exception as e:  # noqa
                    raise Bad('invalid-member', f'{label}({kw}={bad!r}) raised {type(e).__name__}, expected ValueError')
                raise Bad('invalid-member', f'{label}({kw}={bad!r}) did not raise')
    return Result(nontrivial=True, classes=['structure'], evals=37 * 6 + 37 * 37 * 2 + 40, key='structure',
                  sample='structure: forest, tree(), children/nodes/leaves x37, is_child x1369')


def check_include(case):
    """one include set (names) against every small exclude set; match for all 37 when case['match']"""
    I = case['include']
    incl = None if I is None else {cat(n) for n in I}
    do_match = case.get('match', False)
    keys = []
    evals = 0
    for X in ([None] + SMALL):
        excl = None if X is None else {cat(n) for n in X}
        exp = cats.selected(I, X)
        got = TC.valid(include=incl, exclude=excl)
        evals += 1
        if {c.name for c in got} != exp or not all(isinstance(c, TC) for c in got):
            raise Bad('valid', f'valid(include={I}, exclude={X}) = {names(got)}, tree says {sorted(exp)}')
        if do_match:
            for n in NAMES:
                m = TC.match(cat(n), include=incl, exclude=excl)
                evals += 1
                if m != bool(cats.DESC_STAR[n] & exp):
                    raise Bad('match', f'match({n}, include={I}, exclude={X}) = {m}, tree says {bool(cats.DESC_STAR[n] & exp)}')
        if exp and len(exp) < 37 and X and I is not None and (cats.selected(I, None) - exp):
            keys.append([list(I), list(X)])
    r = Result(nontrivial=bool(keys), classes=['include-size=%s' % ('None' if I is None else len(I))] + (['with-match'] if do_match else []),
               evals=evals, sample={'include': I, 'exclude': 'every subset of size <=2', 'match_checked': do_match})
    r.keys = keys
    return r


SHAPES = ('set', 'list', 'tuple', 'bare', 'frozen-list-dups')


def shape(ns, how):
    cs = [cat(n) for n in ns]
    if how == 'set':
        return set(cs)
    if how == 'list':
        return list(cs)
    if how == 'tuple':
        return tuple(cs)
    if how == 'frozen-list-dups':
        return cs + cs[:1]
    return cs[0] if len(cs) == 1 else set(cs)


_sets = st.one_of(st.none(), st.lists(st.sampled_from(NAMES), max_size=10, unique=True),
                  st.lists(st.sampled_from(NAMES), max_size=10, unique=True),
                  st.lists(st.sampled_from(NAMES), min_size=11, max_size=37, unique=True),  # up to all 37
                  st.sampled_from([list(cats.TOP), list(cats.TOP)[:-1], [n for n in NAMES if n not in cats.TOP]]))
big_sets = st.tuples(
    _sets, _sets,
    st.sampled_from(SHAPES), st.sampled_from(SHAPES), st.sampled_from(NAMES), st.booleans(),
).map(lambda t: {'include': t[0], 'exclude': t[1], 'ishape': t[2], 'xshape': t[3], 'probe': t[4], 'mapper': t[5]})


def check_random(case):
    I, X = case['include'], case['exclude']
    incl = None if I is None else shape(I, case['ishape'])
    excl = None if X is None else shape(X, case['xshape'])
    before = (repr(incl), repr(excl))
    api = HM if case['mapper'] else TC
    exp = cats.selected(I, X)
    got = api.valid(include=incl, exclude=excl)
    if {c.name for c in got} != exp:
        raise Bad('valid-random', f'valid(include={I}[{case["ishape"]}], exclude={X}[{case["xshape"]}]) = {names(got)}, tree says {sorted(exp)}')
    # the same selection as the export entry points compute it (kernpy.dumps / dump hand their include / exclude here)
    try:
        sel = kp.core.generic.Generic.parse_options_to_ExportOptions(include=incl, exclude=excl).token_categories
    except Exception as e:  # noqa
        raise Bad('export-options-raised', f'parse_options_to_ExportOptions(include={I}[{case["ishape"]}], exclude={X}[{case["xshape"]}]) raised {e!r}')
    if {c.name for c in sel} != exp:
        raise Bad('export-options-selection', f'export options for include={I}[{case["ishape"]}], exclude={X}[{case["xshape"]}] select {names(sel)}, tree says {sorted(exp)}')
    for n in (case['probe'],) + tuple(NAMES[::5]):
        m = api.match(cat(n), include=incl, exclude=excl)
        if m != bool(cats.DESC_STAR[n] & exp):
            raise Bad('match-random', f'match({n}, include={I}, exclude={X}) = {m}')
    if (repr(incl), repr(excl)) != before:
        raise Bad('argument-mutated', 'valid/match modified the caller\'s include/exclude collection')
    nt = bool(exp) and len(exp) < 37 and bool(X) and I is not None and bool(cats.selected(I, None) - exp)
    return Result(nontrivial=nt, classes=['ishape=' + case['ishape'], 'random'], evals=2 + len(NAMES[::5]),
                  key=[I, X], sample=case)


edit_steps = st.lists(st.tuples(st.sampled_from(['include', 'exclude']), st.sampled_from(['add', 'remove', 'clear', 'same']),
                                st.sampled_from(NAMES)), min_size=3, max_size=10)
edit_cases = st.tuples(st.lists(st.sampled_from(NAMES), max_size=4, unique=True), st.lists(st.sampled_from(NAMES), max_size=3, unique=True),
                       st.sampled_from(['list', 'set']), edit_steps, st.booleans()
                       ).map(lambda t: {'include': t[0], 'exclude': t[1], 'kind': t[2], 'edits': t[3], 'mapper': t[4]})


def check_edited(case):
    """ONE include collection and ONE exclude collection, owned by the caller, handed to valid / match again and again and
    edited in place between the calls: every answer is the selection of what the collections hold at that moment"""
    mk = list if case['kind'] == 'list' else set
    incl, excl = mk(cat(n) for n in case['include']), mk(cat(n) for n in case['exclude'])
    api = HM if case['mapper'] else TC
    I, X = list(case['include']), list(case['exclude'])
    nt = False
    for step, (which, what, n) in enumerate([('include', 'same', NAMES[0])] + [tuple(e) for e in case['edits']]):
        coll, model = (incl, I) if which == 'include' else (excl, X)
        if what == 'add' and n not in model:
            model.append(n)
            coll.append(cat(n)) if isinstance(coll, list) else coll.add(cat(n))
        elif what == 'remove' and n in model:
            model.remove(n)
            coll.remove(cat(n))
        elif what == 'clear':
            del model[:]
            coll.clear()
        exp = cats.selected(I, X)
        got = api.valid(include=incl, exclude=excl)
        if {c.name for c in got} != exp:
            raise Bad('valid-after-in-place-edit', f'step {step}: the caller\'s collections now hold include={I} exclude={X}; valid() = {names(got)}, tree says {sorted(exp)}')
        for pn in (n,) + tuple(NAMES[step % 5::9]):
            m = api.match(cat(pn), include=incl, exclude=excl)
            if m != bool(cats.DESC_STAR[pn] & exp):
                raise Bad('match-after-in-place-edit', f'step {step}: include={I} exclude={X}: match({pn}) = {m}')
        sel = kp.core.generic.Generic.parse_options_to_ExportOptions(include=incl, exclude=excl).token_categories
        if {c.name for c in sel} != exp:
            raise Bad('export-options-after-in-place-edit', f'step {step}: include={I} exclude={X}: export options select {names(sel)}')
        nt = nt or (what in ('add', 'remove') and 0 < len(exp) < 37)
    return Result(nontrivial=nt, classes=['in-place-edits', 'kind=' + case['kind']], evals=3 * (len(case['edits']) + 1), key=['edit', case], sample=case)


def run(ctx):
    if ctx.shard == 0:
        ctx.check_all([{'structure': True}], check_structure)
    work = [None] + SMALL
    stride = 16
    cases = []
    for i, I in enumerate(work):
        if i % ctx.nshards != ctx.shard:
            continue
        do_match = (not ctx.quick) or ((i // ctx.nshards + ctx.seed) % stride == 0)
        cases.append({'include': None if I is None else list(I), 'match': do_match})
    ctx.check_all(cases, check_include)
    ctx.run_hypothesis(big_sets, check_random, max_examples=(3000 if ctx.quick else 64000) // ctx.nshards, label='random-sets')
    ctx.run_hypothesis(edit_cases, check_edited, max_examples=(400 if ctx.quick else 8000) // ctx.nshards, salt=3, label='collections-edited-in-place')
    ctx.rec.exhaustive = True
    ctx.rec.notes['exhaustive_part'] = ('structure; valid() on all 705x705 (None + subsets of size <=2); match() x37 on '
                                        + ('all pairs' if not ctx.quick else '1/16 of the include sets'))


def replay(case):
    if 'structure' in case:
        return check_structure(case)
    if 'edits' in case:
        return check_edited(case)
    if 'ishape' in case:
        return check_random(case)
    c = dict(case)
    c['match'] = True
    return check_include(c)
