"""C08 - a measure excerpt is a self-contained, equivalent score."""
import kernpy as kp
from hypothesis import strategies as st

from .. import docgen as D, humdrum as H, kdoc as K, measures as MS, spine as S
from ..common import Bad, Result

ID = 'C08'
SHARDS_QUICK = 4
RULE = ('Hypothesis **kern scores organised in measures (see C07) x EVERY range 1 <= a <= b <= M, exported with '
        'spine_types=["**kern"].  Claimed core: signatures (clef, key signature, time signature, meter symbol; the same '
        'kinds on every spine, possibly different values) only before the first measure, splits re-joined before the '
        'next barline.  Three further profiles cover the classes the property designates as explored: "sig-change" '
        '(signatures change after measure 1, also inside sub-spines and on some spines only), "in-split" (a split stays '
        'open across barlines so ranges start inside it), "non-kern" (other spines left in the excerpt); the four '
        'defects found there were repaired (fix: commits 134ff72, b848750, 9b3aeea), so all clauses are now enforced '
        'in every profile.  In a quarter of the scores one spine states its opening signatures late (after some notes or rests), a third '
        'carry global comment lines between the rows (half of them directly after a barline).  Oracle: (1) an independent Humdrum well-formedness '
        'validator (kv/humdrum.py) accepts the excerpt; (2) kernpy.loads(excerpt) reports no errors; (3) an '
        'independent text-level signature tracker is run over the source and over the excerpt, the k-th note cell of '
        'the excerpt corresponds to the k-th note cell of the range (C07) and its governing (clef, key signature, time '
        'signature, meter symbol) must be equal in both; (4) the eKern / bEkern excerpts are well-formed, carry the encoding\'s '
        'header and re-import; (5) an Exporter object that has exported other documents before gives the same excerpt as '
        'dumps.  Besides the generated scores, the repository\'s own sample scores (test/resource_dir, files up to 30 kB that import '
        'without errors and whose full export the validator accepts) are excerpted over drawn ranges, **kern spines named by type or '
        'by id: clauses (1)-(3).  An evaluation is one (document, a, b); non-trivial when '
        'a >= 2 (a preamble had to be reconstructed) and the range contains a note.')
ASSUMPTIONS = ['kv/humdrum.py implements the Humdrum syntax rules named in the property (header first, cell count follows the '
               'spine operators, every spine terminated)', 'measure numbering as in C07',
               'after a join the merged spine keeps the signatures of its first sub-spine']

PROFILES = {
    'core': dict(),
    'sig-change': dict(sig_changes=True, sig_after_bar=True, quiet_spines=True),
    'in-split': dict(rejoin_before_bar=False),
    'non-kern': dict(others=True),
    'early-end': dict(partial_term=True, max_spines=3),
    # other spines stand between / beside the **kern spines and are projected away (spine_types=['**kern']): the excerpt "of
    # the **kern spines" of a piano score with dynamics, of a song with lyrics
    'projected': dict(others=True, sig_changes=True),
    'projected-in-split': dict(others=True, rejoin_before_bar=False),
}


@st.composite
def cases(draw, prof):
    doc = draw(D.measure_documents(D.mprofile(**PROFILES[prof])))
    if prof in ('core', 'sig-change', 'in-split', 'non-kern', 'projected', 'projected-in-split') and draw(st.integers(0, 3)) == 0:
        doc = draw(D.with_late_signatures(doc))  # one spine states its first clef / key / meter after some notes or rests
    if draw(st.integers(0, 2)) == 0:
        doc = draw(D.with_global_comments(doc))  # '!!' lines between the rows, half of them directly after a barline
    # the **kern spines can be named by type or by their ids
    return {'doc': doc, 'prof': prof, 'by_ids': prof.startswith('projected') and draw(st.booleans())}


_PRIMERS = []


def primers():
    """small three-spine scores whose first measure starts at stage 2, 3, ... 9: exported first through the Exporter object
    that is then reused for the document under test (an Exporter must not remember another document)"""
    if not _PRIMERS:
        for k in range(0, 8):
            rows = ['**kern\t**kern\t**kern'] + ['*clefG2\t*clefF4\t*clefC3'] * min(k, 1) + ['*MM%d\t*MM%d\t*MM%d' % (60 + i, 60 + i, 60 + i) for i in range(max(0, k - 1))]
            rows += ['=1\t=1\t=1', '4c\t4d\t4e', '=2\t=2\t=2', '4f\t4g\t4a', '==\t==\t==', '*-\t*-\t*-']
            d, _ = kp.loads('\n'.join(rows) + '\n')
            _PRIMERS.append(d)
    return _PRIMERS


def check(case):
    doc = case['doc']
    prof = case['prof']
    text = S.render(doc)
    kdoc = K.loads_clean(text)
    a_ = S.analyze(doc)
    mixed = any(t != '**kern' for t in doc['types'])
    kw = {} if prof == 'non-kern' else {'spine_types': ['**kern']}
    if case.get('by_ids'):
        kw = {'spine_ids': [k for k, t in enumerate(doc['types']) if t == '**kern']}
    B, label = MS.choose_numbering(doc, kdoc)
    M = len(B)
    src_text = K.dumps(kdoc, **kw)  # normalised source, same projection as the excerpts
    src_notes, err = H.track(src_text)
    if err:
        raise Bad('full-export-malformed', f'{err}\n{src_text}')
    # map source export lines to abstract rows
    full = MS.aligned_full(doc, kdoc, a_, None if not kw else {'**kern'}, **kw)
    line_row = {li: ri for li, (ri, _) in enumerate(full)}
    nrows = len(doc['rows'])
    evals, keys = 0, []
    problems = []
    reused = kp.Exporter()
    for pd in primers():
        for fm in (1, 2):
            reused.export_string(pd, kp.ExportOptions(from_measure=fm, spine_types=['**kern']))
    for a in range(1, M + 1):
        for b in range(a, M + 1):
            evals += 1
            ctx = dict(a=a, b=b, M=M, prof=prof)
            lo, hi = MS.range_rows(B, a, b, nrows)
            exp_notes = [n for n in src_notes if lo <= line_row[n[0]] <= hi]
            try:
                ex = kp.dumps(kdoc, from_measure=a, to_measure=b, **kw)
            except Exception as e:  # noqa
                problems.append(Bad('excerpt-raised', f'dumps(from_measure={a}, to_measure={b}) raised {type(e).__name__}: {e}\n{text}',
                                    exc=type(e).__name__, msg=str(e), **ctx))
                continue
            # the same range through an Exporter object that has exported other documents before
            try:
                okw = dict(kw)
                via = reused.export_string(kdoc, kp.ExportOptions(from_measure=a, to_measure=b, **okw))
            except Exception as e:  # noqa
                via = f'raised {e!r}'
            if via != ex:
                problems.append(Bad('reused-exporter', f'range {a}..{b}: an Exporter object that exported other documents before gives a different excerpt\n--- dumps\n{ex}--- reused Exporter\n{via}', **ctx))
                continue
            # the excerpt written with kernpy.dump over a working file that held another (same-size / longer) text
            if (a + 2 * b) % 4 == 1:
                try:
                    filed = K.via_dump_file(kdoc, expect=ex, from_measure=a, to_measure=b, **kw)
                except Bad as b_:
                    problems.append(Bad(b_.sig, b_.detail, **ctx))
                    continue
                if filed != ex:
                    problems.append(Bad('dump-file', f'range {a}..{b}: kernpy.dump writes a different text than dumps returns', **ctx))
                    continue
            # other encodings: still a well-formed document that re-imports, with the encoding's header
            if (a + b) % 3 == 0:
                for enc, pre in (('ekern', '**e'), ('bekern', '**be')):
                    try:
                        exe = kp.dumps(kdoc, from_measure=a, to_measure=b, encoding=K.ENCODINGS[enc], **kw)
                    except Exception as e:  # noqa
                        problems.append(Bad('excerpt-encoding-raised', f'{enc} excerpt {a}..{b} raised {e!r}', **ctx))
                        break
                    _, erre = H.track(exe)
                    hdr = exe.split('\n')[0].split('\t')
                    if erre or not all(h.startswith(pre) for h in hdr):
                        problems.append(Bad('excerpt-encoding-malformed', f'{enc} excerpt {a}..{b}: {erre or "header " + repr(hdr)}\n{exe}', **ctx))
                        break
                    try:
                        _, ee = kp.loads(exe)
                    except Exception as e:  # noqa
                        ee = [e]
                    if ee:
                        problems.append(Bad('excerpt-encoding-reimport', f'{enc} excerpt {a}..{b} does not re-import cleanly\n{exe}', **ctx))
                        break
            got_notes, err = H.track(ex)
            if err:
                exl = [l.split('\t') for l in ex.split('\n') if l]
                first_data = next((i for i, c in enumerate(exl) if not c[0].startswith('*')), len(exl))
                problems.append(Bad('excerpt-malformed', f'range {a}..{b} of M={M}: {err}\n--- source\n{text}--- excerpt\n{ex}',
                                    err=str(err), kind=getattr(err, 'kind', None), line=getattr(err, 'line', None),
                                    cells=getattr(err, 'cells', None), paths=getattr(err, 'paths', None),
                                    first_data_line=first_data, header_width=len(exl[0]) if exl else 0,
                                    width_at_start=len(doc['rows'][lo]['c']), **ctx))
                continue
            try:
                d2, e2 = kp.loads(ex)
            except Exception as e:  # noqa
                problems.append(Bad('excerpt-reimport-raised', f'{a}..{b}: {e!r}\n{ex}', **ctx))
                continue
            if e2:
                problems.append(Bad('excerpt-reimport-errors', f'{a}..{b}: {[(x.line, x.encoding) for x in e2]}\n{ex}', **ctx))
                continue
            if [n[2] for n in got_notes] != [n[2] for n in exp_notes]:
                problems.append(Bad('excerpt-notes', f'{a}..{b}: note cells {[n[2] for n in got_notes]}, range has {[n[2] for n in exp_notes]} (C07)\n{text}--- excerpt\n{ex}', **ctx))
                continue
            for g, e in zip(got_notes, exp_notes):
                if g[3] != e[3]:
                    missing_only = all(x == y or x is None for x, y in zip(g[3], e[3]))
                    problems.append(Bad('signature-differs', f'range {a}..{b}: note {g[2]!r} is governed by {g[3]} in the excerpt and by {e[3]} in the full score\n--- source\n{text}--- excerpt\n{ex}',
                                        missing_only=missing_only, got=list(g[3]), exp=list(e[3]), **ctx))
                    break
            else:
                if a >= 2 and exp_notes:
                    keys.append([text, a, b])
    r = Result(nontrivial=bool(keys), evals=evals,
               classes=K.doc_classes(doc, a_) + ['profile=' + prof, label] + (['pickup'] if doc.get('pickup') else []),
               sample={'document': text, 'ranges': f'all 1<=a<=b<={M}'})
    r.keys = keys
    if problems:
        # report the first problem that is not a recognised finding first; the runner classifies each
        r.problems = [__import__('kv.common', fromlist=['Problem']).Problem(p.sig, p.detail, p.data) for p in problems]
    return r


def check_real(case):
    """a sample score of the repository: the excerpts of its **kern spines (named by type or by id) pass the same validator,
    re-import, and give every note cell of the range the same governing signatures as the whole export"""
    from .. import realscores as RS
    try:
        kdoc, errs = kp.load(RS.path(case['real']))
    except Exception:  # noqa
        return Result(classes=['real-score-not-importable'])
    if errs:
        return Result(classes=['real-score-with-import-errors'])
    types = kp.spine_types(kdoc)
    kw = {'spine_types': ['**kern']}
    if case.get('by_ids'):
        kw = {'spine_ids': [k for k, t in enumerate(types) if t == '**kern']}
    if '**kern' not in types:
        return Result(classes=['real-score-without-kern'])
    src_text = K.dumps(kdoc, **kw)
    src_notes, err = H.track(src_text)
    if err:
        return Result(classes=['real-score-outside-the-validator'])  # e.g. two join groups side by side
    lines = [l for l in src_text.split('\n') if l]
    B = RS.measure_lines(lines)
    M = len(kdoc.measure_start_tree_stages)
    if len(B) != M or M == 0:
        return Result(classes=['real-score-numbering-not-text-level'])  # invisible barlines, phantom measure ...
    evals, keys = 0, []
    for a, b in RS.ranges(case, M):
        evals += 1
        lo, hi = B[a - 1], (B[b] if b < M else len(lines) - 1)
        exp_notes = [n for n in src_notes if lo <= n[0] <= hi]
        ex = K.dumps(kdoc, what=f'{case["real"]}: dumps(from_measure={a}, to_measure={b})', from_measure=a, to_measure=b, **kw)
        got_notes, err = H.track(ex)
        if err:
            raise Bad('excerpt-malformed', f'{case["real"]} ({K._kwrepr(kw)}), range {a}..{b} of M={M}: {err}\n--- excerpt\n{ex[:1500]}', a=a, b=b, M=M, prof='real')
        try:
            _, e2 = kp.loads(ex)
        except Exception as e:  # noqa
            raise Bad('excerpt-reimport-raised', f'{case["real"]} {a}..{b}: {e!r}')
        if e2:
            src_has = any(x.encoding in src_text for x in e2)
            if not src_has:
                raise Bad('excerpt-reimport-errors', f'{case["real"]} {a}..{b}: {[(x.line, x.encoding) for x in e2][:4]}')
        if [n[2] for n in got_notes] != [n[2] for n in exp_notes]:
            raise Bad('excerpt-notes', f'{case["real"]} {a}..{b}: the excerpt has {len(got_notes)} note cells, the range {len(exp_notes)}; first difference '
                                       f'{next(((x[2], y[2]) for x, y in zip(got_notes, exp_notes) if x[2] != y[2]), None)}')
        for g, e in zip(got_notes, exp_notes):
            if g[3] != e[3]:
                raise Bad('signature-differs', f'{case["real"]} range {a}..{b}: note {g[2]!r} is governed by {g[3]} in the excerpt and by {e[3]} in the whole export\n--- excerpt\n{ex[:1200]}',
                          a=a, b=b, M=M, prof='real')
        if a >= 2 and exp_notes:
            keys.append([case['real'], a, b, case.get('by_ids')])
    r = Result(nontrivial=bool(keys), evals=evals, classes=['real-score', 'real-score-by-ids' if case.get('by_ids') else 'real-score-by-type'],
               sample={'file': case['real'], 'ranges': RS.ranges(case, M)[:4]})
    r.keys = keys
    return r


def _is_sig(c):
    return c.startswith('*clef') or c.startswith('*k[') or c == '*kcancel' or c.startswith('*met(') or \
        (c.startswith('*M') and len(c) > 2 and (c[2].isdigit() or c[2] == '('))


def _sig_after_first_bar(doc):
    seen = False
    for row in doc['rows']:
        if 'c' not in row:
            continue
        if any(c['k'] == 'bar' for c in row['c']):
            seen = True
        elif seen and any(c.get('sig') for c in row['c']):
            return True
    return False


def _preamble_width_error(p):
    d = p.data
    return (p.sig == 'excerpt-malformed' and d.get('kind') == 'width' and d.get('line') is not None
            and d['line'] < d.get('first_data_line', 0))


def f_split(case, p):
    """KF-C08-SPLIT: the range starts while a split is open; the reconstructed preamble has one header per open
    sub-spine and repeats the split operator, so the cell count breaks BEFORE the first data line of the excerpt"""
    d = p.data
    nk = sum(1 for t in case['doc']['types'] if t == '**kern') if case['prof'] != 'non-kern' else len(case['doc']['types'])
    return (_preamble_width_error(p) and d.get('width_at_start', 0) > nk and d.get('header_width') == d.get('width_at_start'))


def f_sigkinds(case, p):
    """KF-C08-SIGKINDS: at the first stage of the range the live spines carry different numbers of uncancelled
    signatures: the exporter raises 'Node signature mismatch', or (a spine with none) emits a signature row narrower
    than the header"""
    if not _sig_after_first_bar(case['doc']):
        return False
    if p.sig == 'excerpt-raised':
        return p.data.get('exc') == 'Exception' and str(p.data.get('msg', '')).startswith('Node signature mismatch')
    d = p.data
    return (case['prof'] != 'non-kern' and _preamble_width_error(p) and d.get('cells') and all(_is_sig(c) for c in d['cells'])
            and len(d['cells']) < d['paths'])


def f_nonkern(case, p):
    """KF-C08-NONKERN: non-kern spines are kept in the excerpt; they have no signatures, so the reconstructed signature
    rows are narrower than the header"""
    d = p.data
    return (case['prof'] == 'non-kern' and any(t != '**kern' for t in case['doc']['types']) and _preamble_width_error(p)
            and d.get('cells') and all(_is_sig(c) for c in d['cells']) and len(d['cells']) < d['paths'])


def f_chordsig(case, p):
    """KF-C08-CHORDSIG: a signature that is changed later inside the range is omitted from the preamble although notes
    precede the change (in a chord, or in a sibling sub-spine): the governing value is MISSING in the excerpt, never
    a different one"""
    return p.sig == 'signature-differs' and p.data.get('missing_only') is True and _sig_after_first_bar(case['doc'])


FINDINGS = {'KF-C08-SPLIT': f_split, 'KF-C08-SIGKINDS': f_sigkinds, 'KF-C08-NONKERN': f_nonkern, 'KF-C08-CHORDSIG': f_chordsig}


def run(ctx):
    n = 20 if ctx.quick else 800
    ctx.run_hypothesis(cases('core'), check, max_examples=n, label='core')
    from .. import realscores as RS
    rc = RS.cases()
    if rc is not None:
        ctx.run_hypothesis(rc, check_real, max_examples=max(3, (24 if ctx.quick else 480) // ctx.nshards), salt=9, label='real-scores')
    for i, prof in enumerate(('sig-change', 'in-split', 'non-kern', 'early-end', 'projected', 'projected-in-split')):
        ctx.run_hypothesis(cases(prof), check, max_examples=max(9, n // 3), salt=i + 1, label=prof)


def replay(case):
    if 'real' in case:
        return check_real(case)
    return check(case)
