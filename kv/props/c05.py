"""C05 - category filtering removes exactly the unselected material (metamorphic against the unfiltered eKern export)."""
import hashlib

import kernpy as kp
from hypothesis import strategies as st

from .. import cats, docgen as D, kdoc as K, spine as S, xform as X
from ..common import Bad, Result

ID = 'C05'
SHARDS_QUICK = 4
TC = kp.TokenCategory
NAMES = cats.ALL
RULE = ('Hypothesis documents (profile "full") x include/exclude selections: for EVERY document all 37 single-category '
        'includes, all 37 single-category excludes, 37 single/single pairs chosen by a rotation derived from the '
        'document (so that all 37x37 pairs are covered across documents), the identity selections (None/None, '
        'include=all, exclude=empty) and 10 Hypothesis-drawn larger sets (size 0..6) in set/list/tuple/bare-member '
        'shape; every drawn include/exclude pair (and the module constant BEKERN_CATEGORIES) also as caller-owned objects that are used '
        'together and then the include object alone.  Oracle (metamorphic): U = dumps(doc, eKern) aligned with the abstract document; the expected filtered '
        'export is computed from U by kv/xform.py F (sub-parts of notes/rests classified lexically, chord members '
        'individually, other tokens by category, closure from the README tree in kv/cats.py, all-placeholder rows '
        'dropped).  An evaluation is one (document, selection); it is non-trivial when the selection is neither empty '
        'nor everything and changes at least one cell while keeping at least one.')
ASSUMPTIONS = ['kv/cats.py is the documented tree', 'a placeholder may be written "." or "*" (the property does not say which)',
               'cells whose category the documentation does not pin (key designation, assorted tandem interpretations, '
               'instrument names) are filtered by the category kernpy itself assigned to them']


def cat_arg(names, shape):
    cs = [TC[n] for n in names]
    if shape == 'list':
        return cs
    if shape == 'tuple':
        return tuple(cs)
    if shape == 'bare' and len(cs) == 1:
        return cs[0]
    return set(cs)


sel_strategy = st.tuples(
    st.one_of(st.none(), st.lists(st.sampled_from(NAMES), max_size=6, unique=True)),
    st.one_of(st.none(), st.lists(st.sampled_from(NAMES), max_size=6, unique=True)),
    st.sampled_from(['set', 'list', 'tuple', 'bare']))


@st.composite
def cases(draw):
    doc = draw(D.documents(D.profile('full', hidden_bars=True)))
    sels = [list(draw(sel_strategy)) for _ in range(10)]
    return {'doc': doc, 'sels': sels}


def selections(case, text):
    h = int(hashlib.sha1(text.encode('utf-8', 'surrogatepass')).hexdigest(), 16)
    off = h % 37
    yield None, None, 'set'
    yield list(NAMES), None, 'set'
    yield None, [], 'list'
    yield list(NAMES), [], 'set'
    for i, n in enumerate(NAMES):
        yield [n], None, ('bare' if (i + off) % 2 else 'list')
        yield None, [n], ('bare' if (i + off) % 3 == 0 else 'set')
        yield [NAMES[(i + off) % 37]], [n], 'tuple'
    for s in case['sels']:
        yield s[0], s[1], s[2]


def check(case):
    doc = case['doc']
    text = S.render(doc)
    kdoc = K.loads_clean(text)
    a = S.analyze(doc)
    base = X.aligned(doc, kdoc, a)
    U = K.dumps(kdoc, encoding=kp.Encoding.eKern)
    keys = []
    n = 0
    primed = K.primed_exporter()
    for I, Xc, shape in selections(case, text):
        kw = {}
        if I is not None:
            kw['include'] = cat_arg(I, shape)
        if Xc is not None:
            kw['exclude'] = cat_arg(Xc, shape)
        sel = cats.selected(I, Xc)
        got_text = K.dumps(kdoc, encoding=kp.Encoding.eKern, **kw)
        n += 1
        if n % 7 == 0 and K.via_primed(primed, kdoc, encoding=kp.Encoding.eKern, **kw) != got_text:
            raise Bad('exporter-with-a-past', f'include={I} exclude={Xc}: an Exporter object that exported other documents and selections before gives a different text than dumps',
                      include=I, exclude=Xc)
        if n % 11 == 3 and K.via_dump_file(kdoc, expect=got_text, encoding=kp.Encoding.eKern, **kw) != got_text:
            raise Bad('dump-file', f'include={I} exclude={Xc}: kernpy.dump writes a different text than dumps returns', include=I, exclude=Xc)
        if n % 11 == 5 and K.via_reused_options(kdoc, encoding=kp.Encoding.eKern, **kw) != got_text:
            raise Bad('options-with-a-past', f'include={I} exclude={Xc}: an Exporter and an ExportOptions object that were used for other documents before give a different text than dumps',
                      include=I, exclude=Xc)
        if len(sel) == 37 and got_text != U:
            raise Bad('identity', f'include={I} exclude={Xc} selects everything but the export differs from the unfiltered one',
                      include=I, exclude=Xc)
        exp = X.render(X.F(base, sel))
        diff = X.same(K.grid(got_text), exp)
        if diff:
            raise Bad('filter', f'include={I} exclude={Xc} [{shape}]: {diff}\n--- source\n{text}--- unfiltered\n{U}--- filtered\n{got_text}',
                      include=I, exclude=Xc)
        if 0 < len(sel) < 37 and got_text != U and got_text != '':
            keys.append([text, sorted(sel)])
    # ONE include collection and ONE exclude collection owned by the caller (and the module constant BEKERN_CATEGORIES
    # itself): used together, then the include object alone - it still means what it holds, and it was not rewritten
    for I, Xc, shape in list(case['sels']) + [['BEKERN', ['DURATION', 'DECORATION'], 'set'], ['BEKERN', ['NOTE_REST'], 'list']]:
        if I is None or not Xc:
            continue
        if I == 'BEKERN':
            inc_obj, I = kp.BEKERN_CATEGORIES, sorted(c.name for c in kp.BEKERN_CATEGORIES)
        else:
            inc_obj = [TC[x] for x in I] if shape == 'list' else {TC[x] for x in I}
        exc_obj = [TC[x] for x in Xc] if shape == 'list' else {TC[x] for x in Xc}
        before = (sorted(c.name for c in inc_obj), sorted(c.name for c in exc_obj))
        first = K.dumps(kdoc, encoding=kp.Encoding.eKern, include=inc_obj, exclude=exc_obj)
        if (sorted(c.name for c in inc_obj), sorted(c.name for c in exc_obj)) != before:
            raise Bad('argument-rewritten', f'dumps(include={before[0]}, exclude={before[1]}) rewrote the caller\'s collection: now '
                                            f'include={sorted(c.name for c in inc_obj)} exclude={sorted(c.name for c in exc_obj)}')
        diff = X.same(K.grid(first), X.render(X.F(base, cats.selected(I, Xc))))
        if diff:
            raise Bad('filter', f'include={I} exclude={Xc} [caller-owned {shape}]: {diff}', include=I, exclude=Xc)
        again = K.dumps(kdoc, encoding=kp.Encoding.eKern, include=inc_obj)
        n += 2
        diff = X.same(K.grid(again), X.render(X.F(base, cats.selected(I, None))))
        if diff:
            raise Bad('include-object-reused', f'include={I} (the object that was used with exclude={Xc} in the call before, now alone): {diff}',
                      include=I, exclude=None)
    r = Result(nontrivial=bool(keys), classes=K.doc_classes(doc, a), evals=n,
               sample={'document': text, 'example_selection': {'include': case['sels'][0][0], 'exclude': case['sels'][0][1]}})
    r.keys = keys
    return r


def run(ctx):
    n = 50 if ctx.quick else 1000
    ctx.run_hypothesis(cases(), check, max_examples=n, label='filter')


def replay(case):
    return check(case)
