"""C04 - the six encodings are consistent views of one document."""
import kernpy as kp
from hypothesis import strategies as st

from .. import cats, docgen as D, kdoc as K, spine as S, xform as X
from ..common import Bad, Result

ID = 'C04'
SHARDS_QUICK = 4
TC = kp.TokenCategory
ENCS4 = ['kern', 'ekern', 'bkern', 'bekern']
ENCS6 = ENCS4 + ['akern', 'aekern']
RULE = ('Hypothesis documents: profile "full" exported in the four non-agnostic encodings and profile "agnostic" (a '
        'supported clef precedes the first note of every kern/root spine) exported in all six, each under the default '
        'selection and 4 drawn category selections that keep DURATION or PITCH.  Oracles: (1) output-vs-output '
        'relations on kernpy\'s own texts: kern = ekern, bkern = bekern, akern = aekern with "@" and the middle dot '
        'removed (cell by cell), bekern = ekern with every chord member cut at its first decoration separator, same '
        'row/column shape and chord sizes; the same six texts must come out of ONE ExportOptions object (one category '
        'set) whose encoding is switched through a drawn permutation of the encodings and back; (2) every encoding equals kv/xform.py T applied to the aligned eKern grid '
        '(headers "**"+prefix+type, non-note cells identical, basic = decorations removed member by member, agnostic '
        '= pitch letters converted under the clef in force); (3) a cell that is a placeholder is the same placeholder ("." or "*") '
        'in all six encodings; (4) in the "full" profile (notes need not have a clef) every group of exports is preceded by an agnostic '
        'export whose outcome is not defined and is ignored - it must leave nothing behind.  The output-vs-output relations (1), (3) and the '
        'header rule are also applied to the repository\'s own sample scores (whole score and one category selection).  Non-trivial: the document has a chord in which a '
        'non-final member carries a signifier, or at least three encodings give pairwise different texts for some '
        'note.')
ASSUMPTIONS = ['core alphabet: non-note cells contain neither "@" nor the middle dot (KF-SEP is tracked under C03)',
               'Clef.bottom_line() is read from kernpy for the agnostic conversion (see C10)']

KEEP = [['DURATION'], ['PITCH'], ['NOTE_REST'], ['CORE'], ['DURATION', 'PITCH']]


@st.composite
def cases(draw, prof):
    doc = draw(D.documents(D.profile(prof, kern_weight=5, hidden_bars=True)))
    order = draw(st.permutations(ENCS6 if prof == 'agnostic' else ENCS4))
    sels = []
    for _ in range(4):
        inc = draw(st.one_of(st.none(), st.lists(st.sampled_from(cats.ALL), max_size=6, unique=True)))
        exc = draw(st.one_of(st.none(), st.lists(st.sampled_from([c for c in cats.ALL if c not in
                   ('DURATION', 'PITCH', 'NOTE_REST', 'NOTE', 'CORE')]), max_size=4, unique=True)))
        if inc is not None:
            inc = inc + draw(st.sampled_from(KEEP))
        sels.append([inc, exc])
    return {'doc': doc, 'sels': sels, 'agnostic': prof == 'agnostic', 'order': list(order)}


def bekern_of(ekern_cell):
    if '·' not in ekern_cell:
        return ekern_cell
    ms = ekern_cell.split(' ')
    out = []
    for m in ms:
        r = m.split('·')[0].rstrip('@')
        out.append(r)
    if len(ms) > 1:
        return ' '.join(x if x else None or '*' for x in out)
    return out[0]


def check(case):
    doc = case['doc']
    text = S.render(doc)
    kdoc = K.loads_clean(text)
    a = S.analyze(doc)
    base = X.aligned(doc, kdoc, a)
    encs = ENCS6 if case['agnostic'] else ENCS4
    evals = 0
    primed = K.primed_exporter()
    for e in encs:
        if K.via_primed(primed, kdoc, encoding=K.ENCODINGS[e]) != K.dumps(kdoc, encoding=K.ENCODINGS[e]):
            raise Bad('exporter-with-a-past', f'{e}: an Exporter object that exported other documents before gives a different text than dumps')
    differing = False
    undefined = set()
    tag_ = lambda i_, x_: f'include={i_} exclude={x_}'  # noqa
    for inc, exc in [[None, None]] + case['sels']:
        kw = {}
        if inc is not None:
            kw['include'] = [TC[n] for n in inc]
        if exc is not None:
            kw['exclude'] = {TC[n] for n in exc}
        sel = cats.selected(inc, exc)
        if not ({'DURATION', 'PITCH'} & sel):
            continue
        if not case['agnostic']:
            # an agnostic export of a document whose notes need not have a (supported) clef: whatever it returns or
            # raises (often half-way through the rows) is ignored - it must leave nothing behind for the exports below
            try:
                kp.dumps(kdoc, encoding=K.ENCODINGS[('akern', 'aekern')[evals % 2]], **kw)
                undefined.add('undefined-agnostic-export-returned')
            except Exception:  # noqa
                undefined.add('undefined-agnostic-export-raised')
        out = {e: K.dumps(kdoc, what=e, encoding=K.ENCODINGS[e], **kw) for e in encs}
        grids = {e: K.grid(out[e]) for e in encs}
        # a cell that is a placeholder is the same placeholder in every encoding (all non-note cells are identical in the
        # six encodings; a note emptied by the selection is no exception)
        ref = grids['ekern']
        for e in encs:
            if len(grids[e]) == len(ref) and all(len(x) == len(y) for x, y in zip(grids[e], ref)):
                for ri, (rx, ry) in enumerate(zip(grids[e], ref)):
                    for cx, cy in zip(rx, ry):
                        # (a basic encoding may reduce a cell that only holds signifiers to a placeholder of its own)
                        if cx != cy and (cy in K.NULLS or (cx in K.NULLS and e in ('kern', 'akern', 'aekern'))):
                            raise Bad('placeholder-differs', f'row {ri}: {e} writes {cx!r} where ekern writes {cy!r} ({tag_(inc, exc)})\n--- ekern\n{out["ekern"]}--- {e}\n{out[e]}')
        evals += len(encs)
        tag = f'include={inc} exclude={exc}'
        # one Exporter, ONE options object (and so one category set) whose encoding is changed between exports, in a
        # drawn order and back: every text must be the one a fresh call gives for that encoding
        okw = {k: v for k, v in kw.items()}
        opts = kp.core.generic.Generic.parse_options_to_ExportOptions(**okw)
        ex1 = kp.Exporter()
        order = [e for e in case.get('order', encs) if e in encs]
        for e in order + order[::-1]:
            opts.kern_type = K.ENCODINGS[e]
            try:
                g1 = ex1.export_string(kdoc, opts)
            except Exception as ex_:  # noqa
                raise Bad('options-object-sequence-raised', f'{e} in the sequence {order + order[::-1]} with one options object raised {ex_!r} ({tag})')
            if g1 != out[e]:
                raise Bad('options-object-sequence', f'{e} exported with an options object that exported {order + order[::-1]} in turn differs from a fresh export ({tag})\n--- fresh\n{out[e]}--- sequence\n{g1}')
        evals += 2 * len(order)
        # ... and from kernpy.dump onto a file that already holds other (same-size, then longer) content
        e_ = encs[(len(text) + evals) % len(encs)]
        if K.via_dump_file(kdoc, expect=out[e_], encoding=K.ENCODINGS[e_], **kw) != out[e_]:
            raise Bad('dump-file', f'{e_} ({tag}): kernpy.dump writes a different text than dumps returns')
        # (1) output-vs-output
        for plain, ext in (('kern', 'ekern'), ('bkern', 'bekern'), ('akern', 'aekern')):
            if plain not in grids:
                continue
            gp, ge = grids[plain], grids[ext]
            if len(gp) != len(ge) or any(len(x) != len(y) for x, y in zip(gp, ge)):
                raise Bad('shape', f'{plain} and {ext} have different shapes ({tag})\n{out[plain]}---\n{out[ext]}')
            for ri, (rp, re_) in enumerate(zip(gp, ge)):
                for cp, ce in zip(rp, re_):
                    if ce.startswith('**'):
                        okp = cp == '**' + K.PREFIX[plain] + ce[2 + len(K.PREFIX[ext]):] and ce.startswith('**' + K.PREFIX[ext])
                    else:
                        okp = cp == K.strip_sep(ce)
                    if not okp:
                        raise Bad('plain-vs-extended', f'{plain} cell {cp!r} vs {ext} cell {ce!r} ({tag})')
        ge, gb = grids['ekern'], grids['bekern']
        exp_b = []
        for row in ge:
            r = [('**be' + c[3:]) if c.startswith('**e') else bekern_of(c) for c in row]
            r = [c if c != '' else '.' for c in r]
            if not all(c in ('.', '*', '') for c in r):
                exp_b.append(r)
        norm = lambda g: [[('.' if c in ('.', '*') else ' '.join('.' if m in ('.', '*') else m for m in c.split(' ')) if ' ' in c and '·' not in c and '@' in c else c) for c in r] for r in g]  # noqa
        if norm(gb) != norm(exp_b):
            bad = [(x, y) for x, y in zip(gb, exp_b) if x != y][:2]
            raise Bad('basic-vs-full', f'bekern is not ekern with decorations removed note by note ({tag}): {bad}\n--- ekern\n{out["ekern"]}--- bekern\n{out["bekern"]}')
        # (2) model
        filtered = X.F(base, sel)
        for e in encs:
            diff = X.same(grids[e], X.render(X.T(filtered, e)))
            if diff:
                raise Bad('encoding-model', f'{e} ({tag}): {diff}\n--- source\n{text}--- {e}\n{out[e]}', enc=e)
        if inc is None and exc is None and len(kdoc.measure_start_tree_stages) > 0:
            # the header line of an excerpt is the header line of the whole export in that encoding ('**' + prefix + type),
            # whenever the excerpt has as many columns
            for e in encs:
                try:
                    ex_ = kp.dumps(kdoc, encoding=K.ENCODINGS[e], from_measure=1)
                except Exception:  # noqa  (what an excerpt of an arbitrary document may do is C08's matter)
                    continue
                h0, h1 = out[e].split('\n')[0].split('\t'), ex_.split('\n')[0].split('\t')
                evals += 1
                if len(h0) == len(h1) and h0 != h1:
                    raise Bad('excerpt-header', f'{e}: the excerpt from measure 1 starts with {h1}, the whole export with {h0}')
        if inc is None and exc is None:
            notes_cols = [(ri, k) for ri, row in enumerate(base) for k, c in enumerate(row) if 'members' in c]
            for ri, k in notes_cols:
                vals = {grids[e][ri][k] for e in encs if ri < len(grids[e]) and k < len(grids[e][ri])}
                if len(vals) >= 3:
                    differing = True
    chord_deco = any(c['k'] == 'chord' and any(n['sigs'] for n in c['notes'][:-1]) for _, _, c in S.cells(doc))
    return Result(nontrivial=chord_deco or differing, evals=evals,
                  classes=K.doc_classes(doc, a) + (['agnostic-profile'] if case['agnostic'] else []) +
                  (['chord-with-decorated-inner-member'] if chord_deco else []) + sorted(undefined), sample=text, key=text)


def _norm_placeholders(g):
    return [[('.' if c in ('.', '*') else ' '.join('.' if m in ('.', '*') else m for m in c.split(' ')) if ' ' in c and '·' not in c and '@' in c else c)
             for c in r] for r in g]


def check_real(case):
    """a sample score of the repository: the relations between kernpy's own six exports (no model of the document needed) -
    plain == extended without the separators, basic == full with the signifiers cut note by note, headers '**' + prefix + type,
    a placeholder is the same placeholder everywhere - for the whole score and under one category selection"""
    from .. import realscores as RS
    try:
        kdoc, errs = kp.load(RS.path(case['real']))
    except Exception:  # noqa
        return Result(classes=['real-score-not-importable'])
    if errs:
        return Result(classes=['real-score-with-import-errors'])
    types = kp.spine_types(kdoc)
    evals = 0
    sel_sets = [{}, {'exclude': [TC.DECORATION]}, {'include': [TC.CORE, TC.BARLINES, TC.SIGNATURES, TC.STRUCTURAL, TC.LYRICS]},
                {'exclude': [TC.DURATION, TC.REST]}]
    dot_signifier = '·.' in K.dumps(kdoc, encoding=K.ENCODINGS['ekern'])
    # (an augmentation dot written AFTER the rest or the pitch - '4r.' - is read as a signifier; '.' is outside the signifier
    # alphabet of the property (it is a duration mark) and, left alone in a cell, coincides with the null token: such scores
    # take part with the whole export only)
    for kw in [sel_sets[0]] + ([] if dot_signifier else [sel_sets[1 + case['raw'][0][0] % 3]]):
        out = {}
        for e in ENCS6:
            try:
                out[e] = K.dumps(kdoc, what=f'{case["real"]} {e}', encoding=K.ENCODINGS[e], **kw)
            except Bad:
                if e in ('akern', 'aekern'):
                    continue  # a clef kernpy cannot place, a pitch before the first clef: the agnostic exports are not defined
                raise
        grids = {e: K.grid(out[e]) for e in out}
        evals += len(out)
        tag = f'{case["real"]} ({K._kwrepr(kw)})'
        for plain, ext in (('kern', 'ekern'), ('bkern', 'bekern'), ('akern', 'aekern')):
            if plain not in grids or ext not in grids:
                continue
            gp, ge = grids[plain], grids[ext]
            if len(gp) != len(ge) or any(len(x) != len(y) for x, y in zip(gp, ge)):
                raise Bad('shape', f'{tag}: {plain} and {ext} have different shapes')
            for ri, (rp, re_) in enumerate(zip(gp, ge)):
                for cp, ce in zip(rp, re_):
                    if ce.startswith('**'):
                        okp = cp == '**' + K.PREFIX[plain] + ce[2 + len(K.PREFIX[ext]):] and ce.startswith('**' + K.PREFIX[ext])
                    else:
                        okp = cp == K.strip_sep(ce)
                    if not okp:
                        raise Bad('plain-vs-extended', f'{tag} line {ri}: {plain} cell {cp!r} vs {ext} cell {ce!r}')
        for e, g in grids.items():
            if g and g[0] != ['**' + K.PREFIX[e] + t[2:] for t in types][:len(g[0])] and len(g[0]) == len(types):
                raise Bad('header', f'{tag}: {e} header line {g[0]}, spine types {types}')
        ge, gb = grids['ekern'], grids['bekern']
        exp_b = []
        for row in ge:
            r = [('**be' + c[3:]) if c.startswith('**e') else bekern_of(c) for c in row]
            r = [c if c != '' else '.' for c in r]
            if not all(c in ('.', '*', '') for c in r):
                exp_b.append(r)
        if _norm_placeholders(gb) != _norm_placeholders(exp_b):
            bad = [(x, y) for x, y in zip(gb, exp_b) if x != y][:2]
            raise Bad('basic-vs-full', f'{tag}: bekern is not ekern with the signifiers removed note by note: {bad}')
        ref = grids['ekern']
        for e in grids:
            if len(grids[e]) == len(ref) and all(len(x) == len(y) for x, y in zip(grids[e], ref)):
                for ri, (rx, ry) in enumerate(zip(grids[e], ref)):
                    for cx, cy in zip(rx, ry):
                        if cx != cy and (cy in K.NULLS or (cx in K.NULLS and e in ('kern', 'akern', 'aekern'))):
                            raise Bad('placeholder-differs', f'{tag} line {ri}: {e} writes {cx!r} where ekern writes {cy!r}')
    return Result(nontrivial=True, evals=evals, classes=['real-score'] + (['real-score-agnostic'] if 'akern' in out else []) + (['real-score-dot-as-signifier'] if dot_signifier else []),
                  sample={'file': case['real']}, key=['real', case['real'], case['raw'][0][0] % 3])


def run(ctx):
    from .. import realscores as RS
    rc = RS.cases(max_bytes=20000, nranges=1)
    if rc is not None:
        ctx.run_hypothesis(rc, check_real, max_examples=12 if ctx.quick else 300, salt=9, label='real-scores')
    n = 50 if ctx.quick else 1200
    ctx.run_hypothesis(cases('full'), check, max_examples=n, label='full')
    ctx.run_hypothesis(cases('agnostic'), check, max_examples=n, salt=1, label='agnostic')


def replay(case):
    if 'real' in case:
        return check_real(case)
    return check(case)
