"""C12 - malformed tokens are isolated, reported once and preserved."""
import copy

import hypothesis
import kernpy as kp
from hypothesis import strategies as st
from hypothesis.stateful import RuleBasedStateMachine, rule

from .. import docgen as D, grammar as G, kdoc as K, malformed as MF, spine as S
from ..common import Bad, Result, Problem

ID = 'C12'
SHARDS_QUICK = 4
RULE = ('(a) Hypothesis documents (profile "full" without blank lines) in which 1-4 cells (notes, rests, chords, '
        'interpretations, barlines, nulls, lyrics - never headers or spine operators) are replaced by malformed text '
        'of four labelled kinds: unknown character (outside the lexer vocabulary, at any position of a note/rest/chord/'
        'barline), truncated token, wrong order, complete token + garbage - plus randomly edited notes (insert / delete / '
        'swap / replace a character) whose validity the harness does not know: for those only isolation, single '
        'reporting and "no character silently lost" are required; one cell in ten of a multi-column row is emptied '
        'completely (limit case of truncation: import clauses only, the export shows a placeholder).  Oracle: differential against the import of '
        'the undamaged document (LF or CRLF line ends, string or file import, dumps and dump-to-file): loads does not raise; exactly one ErrorToken per damaged **kern/**root cell with its '
        'text and 1-based line, none for other spines; every undamaged token has the same class, category, encoding and '
        'export; dumps shows every damaged cell verbatim in place.  (b) a Hypothesis RuleBasedStateMachine that keeps '
        'one spine importer per spine type alive and feeds it up to 30 valid and malformed tokens in any order: every '
        'call must give the outcome (token signature or "raised") of a fresh importer.  Non-trivial: (a) a valid '
        '**kern/**root cell follows a damaged one; (b) a valid token is imported after a malformed one by the same '
        'importer.')
ASSUMPTIONS = ['malformed texts labelled "strict" are rejected by the grammar (checked: a fresh importer raises for each of them '
               'on this tree); "complete token + garbage" texts are allowed to be either reported or - known finding '
               'KF-C12-TRAIL - silently truncated to their valid prefix',
               'documents have no blank lines, so kernpy\'s row counter is the physical line number']
KERNLIKE = ('**kern', '**root')
DAMAGEABLE = ('note', 'rest', 'chord', 'interp', 'bar', 'null', 'nullinterp', 'text')


@st.composite
def cases(draw):
    doc = draw(D.documents(D.profile('full', kern_weight=4)))
    cand = [(i, k) for i, k, c in S.cells(doc) if c['k'] in DAMAGEABLE]
    if not cand:
        return {'doc': doc, 'damage': []}
    n = draw(st.integers(1, min(4, len(cand))))
    same_row = draw(st.integers(0, 2)) == 0
    if same_row:
        # several damaged cells on one line
        rows = sorted({i for i, _ in cand if sum(1 for j, _ in cand if j == i) >= 2})
        if rows:
            r0 = draw(st.sampled_from(rows))
            cand = [c for c in cand if c[0] == r0]
            n = max(2, min(n, len(cand)))
    picks = draw(st.lists(st.sampled_from(cand), min_size=n, max_size=n, unique=True))
    dmg = []
    same_text = draw(st.integers(0, 2)) == 0
    first = None
    for (i, k) in picks:
        m = draw(MF.malformed(with_mutated=True))
        if same_text and first is not None:
            m = dict(first)  # the same malformed text in several cells
        first = first or m
        if len(doc['rows'][i]['c']) >= 2 and draw(st.integers(0, 9)) == 0:
            # the limit case of a truncated token: nothing at all between two tabs (import clauses only, see check)
            m = {'t': '', 'kind': 'empty', 'strict': True}
        dmg.append({'row': i, 'col': k, **m})
    case = {'doc': doc, 'damage': dmg, 'file': draw(st.booleans()),  # imported from a file in half of the cases
            'crlf': draw(st.integers(0, 3)) == 0}  # Windows line ends in a quarter
    if draw(st.integers(0, 3)) == 0:
        # blank lines (kernpy skips them): error line numbers must still be the physical ones
        case['blanks'] = sorted(set(draw(st.lists(st.integers(0, len(doc['rows']) - 1), min_size=1, max_size=3))))
    return case


def tsig(t):
    return [type(t).__name__, t.category.name, t.encoding, t.export()]


def check(case):
    doc = case['doc']
    a = S.analyze(doc)
    text = S.render(doc)
    kd = K.loads_clean(text)
    doc2 = copy.deepcopy(doc)
    dmg = {}
    for d in case['damage']:
        c = doc2['rows'][d['row']]['c'][d['col']]
        typ = doc['types'][a.spines[d['row']][d['col']]]
        doc2['rows'][d['row']]['c'][d['col']] = {'k': 'damaged', 't': d['t'], 'e': d['t'], 'cat': None}
        dmg[(d['row'], d['col'])] = dict(d, typ=typ)
    blanks = case.get('blanks', [])
    lines2 = S.render(doc2, final=False).split('\n')
    out_lines, phys = [], {}
    for i, ln in enumerate(lines2):
        if i in blanks:
            out_lines.append('')
        out_lines.append(ln)
        phys[i] = len(out_lines)  # 1-based physical line of abstract row i
    nl = '\r\n' if case.get('crlf') else '\n'
    text2 = nl.join(out_lines) + nl
    try:
        if case.get('file'):
            import os
            import tempfile
            with tempfile.TemporaryDirectory(prefix='kv_c12_') as td:
                path = os.path.join(td, 'damaged.krn')
                with open(path, 'w', encoding='utf-8', newline='') as f:
                    f.write(text2)
                kd2, errs = kp.load(path)
        else:
            kd2, errs = kp.loads(text2)
    except Exception as e:  # noqa
        raise Bad('import-raised', f'{"load(file)" if case.get("file") else "loads"} raised {type(e).__name__}: {e} for\n{text2}')
    problems = []
    got_err = sorted((e.line, e.encoding) for e in errs)
    strict_exp = sorted((phys[r], d['t']) for (r, c), d in dmg.items() if (d['typ'] in KERNLIKE or d['kind'] == 'empty') and d['strict'])
    loose_exp = sorted((phys[r], d['t']) for (r, c), d in dmg.items() if d['typ'] in KERNLIKE and not d['strict'])  # incl. mutated
    # errors that correspond to no damaged kern cell, or are reported more than once
    allowed = strict_exp + loose_exp
    extra = list(got_err)
    for x in allowed:
        if x in extra:
            extra.remove(x)
    if extra:
        problems.append(Problem('extra-errors', f'errors {extra} do not belong to a damaged **kern/**root cell (damaged: {allowed})\n{text2}',
                                {'extra': extra}))
    missing = list(strict_exp)
    for x in got_err:
        if x in missing:
            missing.remove(x)
    if missing:
        problems.append(Problem('missing-error', f'no error reported for malformed cell(s) {missing}; reported: {got_err}\n{text2}',
                                {'missing': missing}))
    for e in errs:
        if not isinstance(e, kp.core.tokens.ErrorToken) or e.category.name != 'ERROR':
            problems.append(Problem('error-type', f'{e!r}'))
    # tokens of the undamaged cells
    st1, st2 = kd.tree.stages, kd2.tree.stages
    if len(st1) != len(st2):
        raise Bad('shape', f'{len(st2)} stages, undamaged document has {len(st1)}')
    for si in range(1, len(st1)):
        if len(st1[si]) != len(st2[si]):
            raise Bad('shape', f'stage {si}: {len(st2[si])} nodes, undamaged document has {len(st1[si])}\n{text2}')
        for k, (n1, n2) in enumerate(zip(st1[si], st2[si])):
            if (si - 1, k) in dmg:
                continue
            if tsig(n1.token) != tsig(n2.token):
                problems.append(Problem('other-token-changed', f'line {si} col {k}: undamaged cell imports as {tsig(n2.token)}, '
                                        f'without the damage it is {tsig(n1.token)}\n{text2}', {'line': si, 'col': k}))
                break
    # export: damaged cells verbatim in place.  What each damaged cell was actually imported as is read from the tree,
    # so that a (known) silent truncation to a null token does not also count as a grid difference.
    out = K.dumps(kd2)
    if case.get('file') and K.via_dump_file(kd2, expect=out) != out:
        problems.append(Problem('dump-file', 'kernpy.dump of the damaged document writes a different text than dumps returns', {}))
    got = K.grid(out)
    doc3 = copy.deepcopy(doc2)
    actual = {}
    for (ri, k), d in dmg.items():
        tok = st2[ri + 1][k].token
        g = K.strip_sep(tok.export())
        if d['kind'] == 'empty':
            # an empty field has no text to preserve: the export shows a placeholder; only the import clauses apply
            actual[(ri, k)] = '.'
            doc3['rows'][ri]['c'][k] = dict(doc3['rows'][ri]['c'][k], k='null')
            continue
        actual[(ri, k)] = g
        if g in K.NULLS:
            doc3['rows'][ri]['c'][k] = dict(doc3['rows'][ri]['c'][k], k='null')
        reported = (phys[ri], d['t']) in got_err
        structural = tok.category.name in ('EMPTY', 'BARLINES', 'CLEF', 'KEY_SIGNATURE', 'TIME_SIGNATURE', 'METER_SYMBOL', 'STRUCTURAL', 'BOUNDING_BOXES')
        if d['kind'] == 'mutated' and not reported and (d['typ'] in KERNLIKE or structural):
            # the edited token was accepted: it may be a valid token (then the export is its normal form), but nothing
            # the cell contained may be lost silently
            lost = set(d['t']) - set(g) - ({'0', '1', '2', '3', '4', '5', '6', '7', '8', '9'} if d['t'].startswith('=') else set())
            if any('r' in m and not any(ch in 'abcdefgABCDEFG' for ch in m) for m in g.split(' ')):
                lost -= {'/', '\\'}  # stems on rests are discarded by design
            if tok.category.name == 'ERROR':
                problems.append(Problem('error-token-not-reported', f'{d["t"]!r} became an ErrorToken that is not in the errors list'))
            elif lost:
                problems.append(Problem('not-verbatim', f'edited cell {d["t"]!r} ({d["typ"]}, line {phys[ri]}) was accepted without error but is exported as {g!r}: {sorted(lost)} lost\n{text2}',
                                        {'t': d['t'], 'got': g, 'reported': False, 'kind': 'trail', 'typ': d['typ']}))
            continue
        if g != d['t']:
            problems.append(Problem('not-verbatim', f'malformed cell {d["t"]!r} ({d["kind"]}, {d["typ"]}, line {phys[ri]}) is imported/exported as {g!r}'
                                    f' (error reported: {reported})\n{text2}',
                                    {'t': d['t'], 'got': g, 'reported': reported, 'kind': 'trail' if d['kind'] == 'mutated' else d['kind'], 'typ': d['typ']}))
        elif d['typ'] in KERNLIKE and not d['strict'] and not reported:
            problems.append(Problem('missing-error', f'no error for {d["t"]!r}', {'missing': [(phys[ri], d['t'])]}))
        elif d['typ'] not in KERNLIKE and tok.category.name not in (G.OWN_CAT.get(d['typ'], 'OTHER'),):
            # verbatim but under a foreign category: only structural tokens may keep their kern category
            if tok.category.name not in ('EMPTY', 'BARLINES', 'CLEF', 'KEY_SIGNATURE', 'TIME_SIGNATURE', 'METER_SYMBOL',
                                         'STRUCTURAL', 'BOUNDING_BOXES', 'FIELD_COMMENTS'):
                problems.append(Problem('foreign-category', f'{d["t"]!r} in a {d["typ"]} spine has category {tok.category.name}'))
    exp = K.expected_rows(doc3)
    if len(got) != len(exp) or any(len(g) != len(c) for g, (_, c) in zip(got, exp)):
        problems.append(Problem('export-shape', f'export of the damaged document has a different grid\n{text2}--- export\n{out}'))
    else:
        for g, (ri, cells) in zip(got, exp):
            for k, (gc, c) in enumerate(zip(g, cells)):
                if (ri, k) in dmg and gc != actual[(ri, k)]:
                    problems.append(Problem('export-differs-from-token', f'cell {dmg[(ri, k)]["t"]!r}: token exports {actual[(ri, k)]!r}, dumps shows {gc!r}'))
    nt = any(c['k'] in ('note', 'rest', 'chord', 'bar', 'interp') and doc['types'][a.spines[i][k]] in KERNLIKE and
             any((r, cc) in dmg and (r < i or (r == i and cc < k)) and dmg[(r, cc)]['typ'] in KERNLIKE for (r, cc) in dmg)
             for i, k, c in S.cells(doc2))
    res = Result(nontrivial=nt, classes=['kind=' + d['kind'] for d in dmg.values()] + ['in-' + ('kern' if d['typ'] in KERNLIKE else 'other') for d in dmg.values()] +
                 [f'damaged={len(dmg)}'] + (['blank-lines'] if blanks else []), sample={'text': text2, 'damaged': [[d['row'] + 1, d['col'], d['t'], d['kind']] for d in case['damage']]},
                 key=text2)
    res.problems = problems
    return res


def _prefix_export(t, got):
    """is `got` the export of a proper prefix of t that imports cleanly on its own?"""
    for j in range(len(t) - 1, 0, -1):
        p = t[:j]
        try:
            tok = kp.KernSpineImporter().import_token(p)
        except Exception:
            continue
        if tok.export(filter_categories=None).replace('@', '').replace('·', '') == got or tok.export() == got:
            return True
    return False


def f_trail(case, p):
    """KF-C12-TRAIL: a complete token followed by characters that cannot extend it is imported silently as the token:
    no error for the cell and the exported cell equals the export of a proper prefix that imports cleanly on its own"""
    if p.sig == 'not-verbatim':
        d = p.data
        return d.get('reported') is False and d.get('kind') == 'trail' and _prefix_export(d['t'], d['got'])
    if p.sig == 'missing-error' and p.data.get('missing'):
        trail = {x['t'] for x in case.get('damage', []) if x['kind'] == 'trail'}
        return all(m[1] in trail for m in p.data['missing'])
    if p.sig == 'history-differs':
        return False
    return False


FINDINGS = {'KF-C12-TRAIL': f_trail}

# ---- (b) histories ---------------------------------------------------------------------------------------------------
HEADERS = ['**kern', '**kern', '**kern', '**root', '**text', '**dynam', '**harm', '**mxhm', '**fing', '**foo']


@st.composite
def history_tokens(draw):
    x = draw(st.integers(0, 9))
    if x < 4:
        c = draw(st.one_of(G.kern_data_cells(null_weight=1), G.kern_interps(), G.barlines()))
        return [c['t'], 'valid']
    if x < 5:
        return [draw(G.free_texts()), 'text']
    m = draw(MF.malformed())
    return [m['t'], m['kind']]


def outcome(imp, t):
    try:
        return tsig(imp.import_token(t))
    except Exception as e:  # noqa
        return ['raised', type(e).__name__]


def check_history(case):
    imps = {}
    seen_bad = set()
    nt = False
    for step, (h, t, kind) in enumerate(case['history']):
        imp = imps.get(h) or imps.setdefault(h, kp.createImporter(h))
        got = outcome(imp, t)
        ref = outcome(kp.createImporter(h), t)
        if got != ref:
            raise Bad('history-differs', f'step {step}: importer for {h} that has already seen {[x[1] for x in case["history"][:step] if x[0] == h]} '
                                         f'imports {t!r} as {got}; a fresh importer gives {ref}', step=step)
        if got[0] == 'raised':
            seen_bad.add(h)
        elif h in seen_bad:
            nt = True
    return Result(nontrivial=nt, classes=['history', f'len={min(30, len(case["history"])) // 10 * 10}+'], sample=case['history'][:8],
                  key=case['history'], evals=len(case['history']))


class ImporterHistory(RuleBasedStateMachine):
    KV = None

    def __init__(self):
        super().__init__()
        self.imps = {}
        self.history = []

    @rule(h=st.sampled_from(HEADERS), tk=history_tokens())
    def import_token(self, h, tk):
        if self.KV['stop']():
            return
        t, kind = tk
        imp = self.imps.get(h) or self.imps.setdefault(h, kp.createImporter(h))
        self.history.append([h, t, kind])
        got = outcome(imp, t)
        ref = outcome(kp.createImporter(h), t)
        if got != ref:
            self.KV['fail']({'history': list(self.history)}, ('history-differs', f'step {len(self.history)}: importer for {h} with a past gives {got!r} for {t!r}, a new importer gives {ref!r}'))
            raise AssertionError('history-differs')

    def teardown(self):
        if self.history:
            self.KV['count']({'history': list(self.history)})


def run(ctx):
    n = 80 if ctx.quick else 2000
    ctx.run_hypothesis(cases(), check, max_examples=n, label='damage')
    ctx.run_machine(ImporterHistory, check_history, max_examples=50 if ctx.quick else 1500, step_count=30, salt=1, label='history')


def replay(case):
    if 'history' in case:
        return check_history(case)
    return check(case)
