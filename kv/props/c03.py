"""C03 - export conserves the score content cell for cell."""
import collections

from .. import docgen as D, kdoc as K, spine as S
from ..common import Bad, Result

ID = 'C03'
SHARDS_QUICK = 4
RULE = ('Hypothesis-generated abstract documents (kv/docgen.py profile "full": 1-4 spines of the eight supported types, '
        'clef/key/meter/tandem interpretations, every barline type, notes/rests/chords with plain, rational, dotted, '
        'grace and appoggiatura durations, accidentals with display suffixes, signifiers in any order/position/'
        'repetition, nulls, field and global comments, splits, joins, partial terminations).  Oracle: the generator\'s '
        'own description of every cell against a lexical atom parse of kernpy.dumps(doc): same rows (minus global '
        'comments and all-null rows), same columns, non-note cells verbatim, barlines without number, notes/rests with '
        'equal number / dots / grace marks / pitch / accidental, signifier set equal (single notes) or own<=got<=union '
        '(chord members).  A second explored profile puts the separator characters @ and middle-dot inside lyrics and '
        'comments (finding KF-SEP); a third adds the multi-character signifier units &( &&( &) &&) Ww.  Non-trivial: >=2 spines of different type and >=1 note with an accidental, a grace '
        'mark or >=2 signifiers.')
ASSUMPTIONS = ['the abstract cell descriptors of kv/grammar.py are the meaning of the generated text (they are written '
               'before kernpy sees it)', 'atom comparison is order-insensitive inside a note (order is C01\'s business)']


def check(case):
    doc = case['doc']
    text = S.render(doc)
    kdoc = K.loads_clean(text)
    try:
        # a narrowed export first: the default export that follows must not remember it
        import kernpy as kp
        kp.dumps(kdoc, exclude=[kp.TokenCategory.DECORATION, kp.TokenCategory.DURATION])
    except Exception:  # noqa  (what this call returns is C05's business)
        pass
    out = K.dumps(kdoc)
    exp = K.expected_rows(doc)
    got = K.grid(out)
    if not out.endswith('\n') and out != '':
        raise Bad('no-final-newline', repr(out[-20:]))
    if len(got) != len(exp):
        raise Bad('row-count', f'{len(got)} exported rows, expected {len(exp)}\n--- source\n{text}--- export\n{out}')
    for gi, (g, (ri, cells)) in enumerate(zip(got, exp)):
        if len(g) != len(cells):
            raise Bad('column-count', f'export row {gi} has {len(g)} cells, source row {ri} has {len(cells)}\n{text}--- export\n{out}')
        for gc, c in zip(g, cells):
            if 'notes' in c:
                members = gc.split(' ')
                if len(members) != len(c['notes']):
                    raise Bad('chord-size', f'{c["t"]!r} exported as {gc!r}')
                union = set(s for n in c['notes'] for s in n['sigs'])
                for gm, n in zip(members, c['notes']):
                    ga = K.atoms(gm)
                    ea = K.expected_atoms(n)
                    if len(c['notes']) == 1:
                        if ga != ea:
                            raise Bad('note-content', f'{c["t"]!r} exported as {gc!r}: atoms {dict(ga)} expected {dict(ea)}',
                                      src=c['t'], got=gc)
                    else:
                        lost = ea - ga
                        extra = ga - ea
                        if lost:
                            raise Bad('chord-note-lost', f'{c["t"]!r} exported as {gc!r}: member {gm!r} lost {dict(lost)}')
                        if not set(extra) <= union or any(v > 1 for v in extra.values()):
                            raise Bad('chord-note-invented', f'{c["t"]!r} exported as {gc!r}: member {gm!r} has extra {dict(extra)}')
            else:
                if gc != c['e']:
                    raise Bad('cell-not-verbatim', f'source {c["t"]!r} (kind {c["k"]}) exported as {gc!r}, expected {c["e"]!r}',
                              src=c['t'], got=gc, kind=c['k'])
    if K.via_dump_file(kdoc, expect=out) != out:
        raise Bad('dump-file', 'kernpy.dump writes a different text than dumps returns for the default export')
    a = S.analyze(doc)
    notes = [n for _, _, c in S.cells(doc) if 'notes' in c for n in c['notes']]
    nt = (len(set(doc['types'])) >= 2 and
          any(n['acc'] or set(n['dur']) & {'q', 'qq', 'p', 'P'} or len(set(n['sigs'])) >= 2 for n in notes))
    return Result(nontrivial=nt, classes=K.doc_classes(doc, a), sample=text)


def f_sep(case, p):
    """KF-SEP: a non-note cell that contains '@' or the middle dot is exported with exactly those characters removed"""
    if p.sig != 'cell-not-verbatim':
        return False
    src, got = p.data.get('src', ''), p.data.get('got', '')
    return ('@' in src or '·' in src) and got == K.strip_sep(src) and p.data.get('kind') in ('text', 'lcomment')


FINDINGS = {'KF-SEP': f_sep}


def run(ctx):
    if ctx.shard == 0:  # one long score: nothing may depend on the number of rows
        ctx.check_all([{'doc': D.long_document(1200 + 41 * (ctx.seed % 7), ctx.seed)}], check)
    n = 110 if ctx.quick else 2500
    ctx.run_hypothesis(D.documents(D.profile('full')).map(lambda d: {'doc': d}), check, max_examples=n, label='full')
    ctx.run_hypothesis(D.documents(D.profile('sep')).map(lambda d: {'doc': d}), check, max_examples=max(14, n // 8),
                       salt=1, label='sep')
    ctx.run_hypothesis(D.documents(D.profile('full', ext_sigs=True, kern_weight=6)).map(lambda d: {'doc': d}), check,
                       max_examples=max(25, n // 4), salt=2, label='multi-character-signifiers')


def replay(case):
    return check(case)
