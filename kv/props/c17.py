"""C17 - token queries agree with the tree and with each other."""
import collections

import kernpy as kp
from hypothesis import strategies as st

from .. import cats, docgen as D, kdoc as K, spine as S
from ..common import Bad, Result

ID = 'C17'
TC = kp.TokenCategory
RULE = ('Hypothesis documents (profile "full" with global comments before the header, between rows and after the '
        'terminators) x all 37 single categories + 6 drawn category sets as filters, in list/set/tuple shape, x comment '
        'keys present and absent.  Oracle: expected listing = pre-header global comments, every cell in the depth-first '
        'order of kv/spine.py (first child first; merged path under its first join cell), later global comments; every '
        'cell exactly once; documented categories of header / operator / note / rest / chord / barline / clef / key '
        'signature / time signature / meter / field comment / global comment / lyric-type cells; filtered listing == '
        'sub-sequence with category in the README-tree closure of the filter; unique listing == first occurrences by '
        'encoding; frequencies sum to the listing and agree per encoding; get_metacomments == the "!!" lines in order, '
        'with key == those starting with "!!!key"; is_monophonic == (one **kern header and no chord and >=1 '
        'note/rest).  One deterministic case is a stream of 60+ small scores with five different spine layouts, each imported, queried and '
        'released before the next is imported (answers must not be inherited from a released document).  The repository\'s own sample scores (test/resource_dir) are queried as well, with the clauses that need no model (filtered listing == sub-sequence of the full listing by closure, unique, frequencies, comment lines of the file, monophony).  A second run uses degenerate documents (no barline, zero to two data rows, no null tokens in the '
        'data rows, with or without a **kern spine); a third one documents without any **kern spine whose notes live in '
        '**root spines (next to **text / **dynam / **harm).  Non-trivial: the document has a split and at least one global comment after the header.')
ASSUMPTIONS = ['kv/spine.py depth-first order', 'kv/cats.py closure',
               'a barline token is listed with its normalised encoding (type without measure number), see C03']


@st.composite
def cases(draw, degenerate=False, kernless=False):
    if kernless:
        # no **kern spine at all, but notes all the same (a **root spine keeps NOTE_REST tokens): never monophonic
        doc = draw(D.documents(D.profile('full', types=['**root', '**root', '**text', '**dynam', '**harm'], max_spines=3,
                                         min_body=1, max_body=6, force_kern=False, hidden_bars=True)))
    elif degenerate:
        # documents with (almost) no body: header, a few interpretation / comment rows, at most two data rows, no barline
        doc = draw(D.documents(D.profile('full', min_body=0, max_body=2, barlines=False, final_barline=False, max_spines=2,
                                         splits=False, partial_term=False, null_weight=0,
                                         force_kern=draw(st.booleans()))))
    else:
        doc = draw(D.documents(D.profile('full', hidden_bars=True)))
    from .. import grammar as G
    # the same notes written a second time with their signifiers placed differently: distinct encodings, same export
    data_rows = [i for i, r in enumerate(doc['rows']) if 'c' in r and any('notes' in c for c in r['c'])
                 and all(c['k'] in ('note', 'rest', 'chord', 'null', 'text') for c in r['c'])]
    if data_rows and draw(st.booleans()):
        i = draw(st.sampled_from(data_rows))
        copy_ = {'c': [G.rerender(c, [draw(G.layouts(n)) for n in c['notes']]) if 'notes' in c else dict(c) for c in doc['rows'][i]['c']]}
        doc['rows'].insert(i + 1, copy_)
    # extra global comments anywhere (they are not cells, so any position is legal); repeated ones included
    for _ in range(draw(st.integers(0, 3))):
        pos = draw(st.integers(0, len(doc['rows'])))
        doc['rows'].insert(pos, {'g': draw(G.global_comments())})
    glob = [r['g'] for r in doc['rows'] if 'g' in r]
    if glob and draw(st.integers(0, 2)) == 0:
        doc['rows'].insert(draw(st.integers(0, len(doc['rows']))), {'g': draw(st.sampled_from(glob))})
    filters = [draw(st.lists(st.sampled_from(cats.ALL), max_size=5, unique=True)) for _ in range(6)]
    return {'doc': doc, 'filters': filters, 'shape': draw(st.sampled_from(['list', 'set', 'tuple']))}


def enc_of(c):
    return c['e'] if c['k'] == 'bar' else c['t']


def check_stream(case):
    """a stream of small scores with different spine layouts, each imported, queried and RELEASED before the next one is
    imported (a corpus loop in one process): every score gets its own answers, wherever in memory it happens to live"""
    import gc
    n = 0
    for rnd in range(case['rounds']):
        for t_ in _THROWAWAY:
            d_ = kp.loads(t_)[0]
            grid_ = [l.split('\t') for l in t_.split('\n') if l]
            cols = [[r[k] for r in grid_] for k in range(len(grid_[0]))]
            exp_types, exp_list = grid_[0], [c for col in cols for c in col]
            exp_mono = exp_types.count('**kern') == 1 and not any(' ' in c for c in exp_list) and any(c[0].isdigit() for c in exp_list)
            got = (kp.is_monophonic(d_), kp.spine_types(d_), d_.get_all_tokens_encodings(), sum(v['occurrences'] for v in d_.frequencies().values()),
                   kp.spine_types(d_, ['**kern']), d_.get_unique_token_encodings())
            exp = (exp_mono, exp_types, exp_list, len(exp_list), [t for t in exp_types if t == '**kern'], list(dict.fromkeys(exp_list)))
            n += 1
            if got != exp:
                j = next(i for i in range(len(exp)) if got[i] != exp[i])
                what = ['is_monophonic', 'spine_types', 'get_all_tokens_encodings', 'frequencies (sum)', "spine_types(['**kern'])", 'get_unique_token_encodings'][j]
                raise Bad('answers-of-a-released-document', f'score {n} of a stream of scores that are imported, queried and released one after the other: '
                                                            f'{what} = {got[j]!r}, expected {exp[j]!r}\n{t_}')
            del d_
            gc.collect()
    return Result(nontrivial=True, classes=['stream-of-released-documents'], evals=n, sample={'stream': n}, key=['stream', case])


def check_real(case):
    """a sample score of the repository: the clauses that need no model of the document - a filtered listing is the
    sub-sequence of the full listing whose (kernpy-assigned) category lies in the README closure of the filter, unique listings
    keep first occurrences, frequencies sum to the listing, the comment query returns the '!!' lines of the file in order,
    monophony follows from header line and listing"""
    from .. import realscores as RS
    try:
        kdoc, errs = kp.load(RS.path(case['real']))
    except Exception:  # noqa
        return Result(classes=['real-score-not-importable'])
    with open(RS.path(case['real']), 'rb') as f:
        rawb = f.read()
    try:
        raw = rawb.decode('utf-8')
    except UnicodeDecodeError:
        return Result(classes=['real-score-not-utf8'])  # how such a file is decoded is the platform's choice, not the property's
    toks = kdoc.get_all_tokens()
    encs, tcats = [t.encoding for t in toks], [t.category.name for t in toks]
    ncells = sum(len(l.split('\t')) for l in raw.replace('\r', '').split('\n') if l and not l.startswith('!!'))
    nglob = sum(1 for l in raw.replace('\r', '').split('\n') if l.startswith('!!'))
    if not errs and len(toks) != ncells + nglob:
        raise Bad('multiplicity', f'{case["real"]}: {len(toks)} tokens for {ncells} cells and {nglob} global comment lines')
    if kdoc.get_all_tokens_encodings() != encs:
        raise Bad('encodings-listing', f'{case["real"]}: get_all_tokens_encodings differs from get_all_tokens')
    evals = 1
    names = [cats.ALL[x % 37] for x, _ in case['raw']] + ['CORE', 'NOTE_REST', 'SIGNATURES', 'BARLINES', 'COMMENTS', 'LYRICS', 'DYNAMICS']
    filters = [[n_] for n_ in names] + [names[:2], names[1:4]]
    for f in filters:
        closure = cats.selected(f, None)
        arg = [TC[n_] for n_ in f]
        e = [enc for enc, c in zip(encs, tcats) if c in closure]
        g = [t.encoding for t in kdoc.get_all_tokens(filter_by_categories=arg)]
        evals += 1
        if g != e:
            raise Bad('filtered-listing', f'{case["real"]} filter {f}: {len(g)} tokens, the full listing has {len(e)} in the closure')
        eu = list(dict.fromkeys(e))
        if kdoc.get_unique_token_encodings(filter_by_categories=arg) != eu or [t.encoding for t in kdoc.get_unique_tokens(filter_by_categories=arg)] != eu:
            raise Bad('unique', f'{case["real"]} filter {f}: unique listing is not the first occurrences')
        fr = kdoc.frequencies(arg)
        if sum(v['occurrences'] for v in fr.values()) != len(e) or {k: v['occurrences'] for k, v in fr.items()} != dict(collections.Counter(e)) or list(fr) != eu:
            raise Bad('frequencies', f'{case["real"]} filter {f}: frequencies do not agree with the listing')
    # (blanks at the end of a comment line are not significant: kernpy trims them, the generated comments never have any)
    glob = [l.rstrip() for l in raw.replace('\r', '').split('\n') if l.startswith('!!')]
    if kdoc.get_metacomments() != glob:
        raise Bad('metacomments', f'{case["real"]}: get_metacomments() has {len(kdoc.get_metacomments())} entries, the file {len(glob)} global comment lines')
    for key in sorted({c[3:].split(':')[0] for c in glob if c.startswith('!!!')})[:6]:
        if kdoc.get_metacomments(key) != [c for c in glob if c.startswith('!!!' + key)]:
            raise Bad('metacomments-key', f'{case["real"]}: get_metacomments({key!r})')
    if not errs:
        header = next(l for l in raw.replace('\r', '').split('\n') if l.startswith('**')).split('\t')
        mono = header.count('**kern') == 1 and 'CHORD' not in tcats and 'NOTE_REST' in tcats
        if kp.is_monophonic(kdoc) != mono:
            raise Bad('monophonic', f'{case["real"]}: is_monophonic = {kp.is_monophonic(kdoc)}, header {header}, chord tokens {tcats.count("CHORD")}')
    return Result(nontrivial=len(toks) > 50, evals=evals, classes=['real-score'], sample={'file': case['real'], 'tokens': len(toks)}, key=['real', case['real'], case['raw']])


_THROWAWAY = ['**kern\n*clefG2\n4c\n4d\n*-\n', '**kern\t**kern\n*clefF4\t*clefG2\n4C\t4c\n*-\t*-\n', '**text\nla\n*-\n',
              '**kern\t**text\t**kern\n4c 4e\tla\t4g\n*-\t*-\t*-\n', '**kern\t**dynam\n4c\tf\n4c\tf\n*-\t*-\n']


def check(case):
    doc = case['doc']
    text = S.render(doc)
    kdoc = K.loads_clean(text)
    a = S.analyze(doc)
    rows = doc['rows']
    pre = [rows[i]['g'] for i in a.global_rows if i < a.header_row]
    post = [rows[i]['g'] for i in a.global_rows if i > a.header_row]
    order = S.dfs_order(doc, a)
    exp = pre + [enc_of(rows[i]['c'][k]) for i, k in order] + post
    toks = kdoc.get_all_tokens()
    got = [t.encoding for t in toks]
    if got != exp:
        j = next((x for x in range(min(len(got), len(exp))) if got[x] != exp[x]), min(len(got), len(exp)))
        raise Bad('order', f'get_all_tokens differs at position {j}: got {got[j:j + 4]}, expected {exp[j:j + 4]} '
                           f'(lengths {len(got)}/{len(exp)})\n{text}')
    ncells = sum(1 for _ in S.cells(doc))
    if len(toks) != ncells + len(pre) + len(post):
        raise Bad('multiplicity', f'{len(toks)} tokens for {ncells} cells and {len(pre) + len(post)} global comments')
    if kdoc.get_all_tokens_encodings() != exp:
        raise Bad('encodings-listing', 'get_all_tokens_encodings differs from get_all_tokens')
    # documented categories
    exp_cats = ['LINE_COMMENTS'] * len(pre) + [rows[i]['c'][k]['cat'] for i, k in order] + ['LINE_COMMENTS'] * len(post)
    for t, ec, enc in zip(toks, exp_cats, exp):
        if ec is not None and t.category.name != ec:
            raise Bad('category', f'token {enc!r} has category {t.category.name}, documented {ec}')
    evals = 1
    gcat = [t.category.name for t in toks]
    filters = [[n] for n in cats.ALL] + case['filters'] + [None]
    for f in filters:
        if f is None:
            arg = None
            closure = set(cats.ALL)
        else:
            cs = [TC[n] for n in f]
            arg = cs if case['shape'] == 'list' else tuple(cs) if case['shape'] == 'tuple' else set(cs)
            closure = cats.selected(f, None)
        e = [enc for enc, c in zip(exp, gcat) if c in closure]
        g = [t.encoding for t in kdoc.get_all_tokens(filter_by_categories=arg)]
        evals += 1
        if g != e:
            raise Bad('filtered-listing', f'filter {f}: got {g[:8]}..., expected {e[:8]}... ({len(g)}/{len(e)})')
        if kdoc.get_all_tokens_encodings(filter_by_categories=arg) != e:
            raise Bad('filtered-encodings', f'filter {f}')
        eu = list(dict.fromkeys(e))
        gu = kdoc.get_unique_token_encodings(filter_by_categories=arg)
        gut = [t.encoding for t in kdoc.get_unique_tokens(filter_by_categories=arg)]
        if gu != eu or gut != eu:
            raise Bad('unique', f'filter {f}: unique listing {gu[:8]} / {gut[:8]}, expected first occurrences {eu[:8]}')
        fr = kdoc.frequencies(arg)
        cnt = collections.Counter(e)
        if sum(v['occurrences'] for v in fr.values()) != len(e):
            raise Bad('frequencies-sum', f'filter {f}: occurrences sum to {sum(v["occurrences"] for v in fr.values())}, listing has {len(e)}')
        if {k: v['occurrences'] for k, v in fr.items()} != dict(cnt):
            raise Bad('frequencies', f'filter {f}: per-encoding counts differ')
        if list(fr) != eu:
            raise Bad('frequencies-order', f'filter {f}: frequency keys are not in first-occurrence order')
    allc = pre + post
    if kdoc.get_metacomments() != allc:
        raise Bad('metacomments', f'get_metacomments() = {kdoc.get_metacomments()}, document has {allc}')
    keys = {c[3:].split(':')[0] for c in allc if c.startswith('!!!')} | {'COM', 'ABSENT', ''}
    for key in sorted(keys):
        e = [c for c in allc if c.startswith('!!!' + key)]
        g = kdoc.get_metacomments(key)
        evals += 1
        if g != e:
            raise Bad('metacomments-key', f'get_metacomments({key!r}) = {g}, expected {e}')
        gc = kdoc.get_metacomments(key, clear=True)
        ec = [c.replace(f'!!!{key}: ', '') for c in e]
        if gc != ec:
            raise Bad('metacomments-clear', f'get_metacomments({key!r}, clear=True) = {gc}, expected {ec}')
    cells = [c for _, _, c in S.cells(doc)]
    mono = (doc['types'].count('**kern') == 1 and not any(c['k'] == 'chord' for c in cells)
            and any(c['k'] in ('note', 'rest') for c in cells))
    if kp.is_monophonic(kdoc) != mono:
        raise Bad('monophonic', f'is_monophonic = {kp.is_monophonic(kdoc)}, expected {mono}\n{text}')
    nt = a.has_split and bool(post)
    return Result(nontrivial=nt, classes=K.doc_classes(doc, a) + (['monophonic'] if mono else []), evals=evals, sample=text, key=text)


def run(ctx):
    ctx.check_all([{'rounds': 12 + ctx.shard}], check_stream)
    from .. import realscores as RS
    rc = RS.cases(max_bytes=20000, nranges=4)
    if rc is not None:
        ctx.run_hypothesis(rc, check_real, max_examples=16 if ctx.quick else 300, salt=9, label='real-scores')
    if ctx.shard == 0:  # one long score (tree depth == number of rows)
        ctx.check_all([{'doc': D.long_document(1150 + 29 * (ctx.seed % 9), ctx.seed), 'filters': [['CORE'], ['BARLINES', 'LYRICS']], 'shape': 'list'}], check)
    ctx.run_hypothesis(cases(), check, max_examples=250 if ctx.quick else 2000, label='queries')
    ctx.run_hypothesis(cases(degenerate=True), check, max_examples=60 if ctx.quick else 500, salt=1, label='degenerate-documents')
    ctx.run_hypothesis(cases(kernless=True), check, max_examples=40 if ctx.quick else 400, salt=2, label='kernless-with-root-spine')


def replay(case):
    if 'rounds' in case:
        return check_stream(case)
    if 'real' in case:
        return check_real(case)
    return check(case)
