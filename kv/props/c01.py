"""C01 - normalised export is a fixed point of import-then-export; canonical w.r.t. signifier order/position/repetition."""
import copy
import re

import kernpy as kp
from hypothesis import strategies as st

from .. import docgen as D, grammar as G, kdoc as K, spine as S
from ..common import Bad, Result

ID = 'C01'
SHARDS_QUICK = 4
RULE = ('Hypothesis-generated abstract documents (profile "full", see C03) rendered twice: variant A, and variant B in '
        'which every note/rest/chord member has its signifiers re-placed (before the duration, between duration and '
        'pitch, between pitch and accidental, after), permuted and repeated by independent draws.  Oracle: (1) '
        'dumps(loads(A)) re-imports without errors and re-exports to the identical text; (2) the eKern export with '
        'separators removed and **e<type> headers mapped back re-imports and re-exports (eKern) identically, also '
        'through kernpy.get_kern_from_ekern for kern-only documents; (3) dumps(loads(A)) == dumps(loads(B)).  An '
        'explored profile mixes rests and arbitrary signifiers in chords (finding KF-CHORDREST).  Non-trivial: the '
        'document has a note whose signifiers are written outside the trailing position or repeated, or a dotted / '
        'rational / grace duration, or a chord, or a split/join.')
ASSUMPTIONS = ['generated documents are inside the grammar the property quantifies over (they import without errors on '
               'this tree; a document that does not is reported, never discarded)',
               'canonicity is claimed for the 37-character signifier alphabet of kv/grammar.py with construction rules '
               '(i)-(iv) of DESIGN.md 3.1']


def unheader(ekern_text):
    lines = ekern_text.split('\n')
    for i, ln in enumerate(lines):
        if ln.startswith('**'):
            lines[i] = '\t'.join('**' + c[3:] if c.startswith('**e') else c for c in ln.split('\t'))
            break
    return K.strip_sep('\n'.join(lines))


@st.composite
def doc_pairs(draw, P):
    doc = draw(D.documents(P))
    lays = {}
    for i, k, c in S.cells(doc):
        if 'notes' in c:
            lays[f'{i},{k}'] = [draw(G.layouts(n)) for n in c['notes']]
    return {'doc': doc, 'layB': lays}


def variant_b(case):
    docB = copy.deepcopy(case['doc'])
    for i, k, c in S.cells(docB):
        key = f'{i},{k}'
        if key in case['layB']:
            docB['rows'][i]['c'][k] = G.rerender(c, case['layB'][key])
    return docB


def _diff_cells(t1, t2):
    """cells of t1 that differ from t2 (None if the grids have different shapes)"""
    g1, g2 = K.grid(t1), K.grid(t2)
    if len(g1) != len(g2) or any(len(a) != len(b) for a, b in zip(g1, g2)):
        return None
    return [a for r1, r2 in zip(g1, g2) for a, b in zip(r1, r2) if a != b]


def _reimport(text, tag):
    try:
        d2, e2 = kp.loads(text)
    except Exception as e:  # noqa
        raise Bad(tag + '-reimport-raised', f'{type(e).__name__}: {e}\n{text}')
    if e2:
        raise Bad(tag + '-reimport-errors', f'exported text re-imports with errors {[(x.line, x.encoding) for x in e2]}\n{text}',
                  errs=[x.encoding for x in e2])
    return d2


def check(case):
    doc = case['doc']
    A = S.render(doc)
    d = K.loads_clean(A)
    o1 = K.dumps(d)
    d2 = _reimport(o1, 'kern')
    o2 = K.dumps(d2)
    if o2 != o1:
        raise Bad('not-fixed-point', f'dumps(loads(dumps(d))) differs\n--- source\n{A}--- first export\n{o1}--- second export\n{o2}',
                  cells=_diff_cells(o1, o2))
    k1 = K.dumps(d, encoding=kp.Encoding.eKern)
    d3 = _reimport(unheader(k1), 'ekern')
    k2 = K.dumps(d3, encoding=kp.Encoding.eKern)
    if k2 != k1:
        raise Bad('ekern-not-fixed-point', f'--- source\n{A}--- ekern\n{k1}--- after strip/re-import/re-export\n{k2}',
                  cells=_diff_cells(K.strip_sep(k1), K.strip_sep(k2)))
    if all(t == '**kern' for t in doc['types']):
        back = kp.get_kern_from_ekern(k1)
        d4 = _reimport(back, 'get_kern_from_ekern')
        if K.dumps(d4, encoding=kp.Encoding.eKern) != k1 or back != o1:
            raise Bad('get_kern_from_ekern', f'--- ekern\n{k1}--- get_kern_from_ekern\n{back}--- kern export\n{o1}')
    B = S.render(variant_b(case))
    dB = K.loads_clean(B, 'variant B')
    oB = K.dumps(dB)
    if oB != o1:
        la, lb = o1.split('\n'), oB.split('\n')
        diff = [(x, y) for x, y in zip(la, lb) if x != y][:3]
        raise Bad('not-canonical', f'two writings of the same notes export differently: {diff}\n--- A\n{A}--- B\n{B}')
    a = S.analyze(doc)
    notes = [(n, lay) for _, _, c in S.cells(doc) if 'notes' in c for n, lay in zip(c['notes'], c['lay'])]
    moved = any(len(lay) > len(set(s for s, _ in lay)) or any(sl != 'post' for _, sl in lay) for n, lay in notes if len(lay) >= 1)
    special_dur = any(len(n['dur']) > 1 or any('%' in x for x in n['dur']) for n, _ in notes)
    nt = moved or special_dur or any(c['k'] == 'chord' for _, _, c in S.cells(doc)) or a.has_split or a.has_join
    cl = K.doc_classes(doc, a) + (['signifier-moved-or-repeated'] if moved else []) + (['A!=B-text'] if A != B else [])
    return Result(nontrivial=nt, classes=cl, sample={'A': A, 'B': B}, key=[A, B])


def check_real(case):
    """a sample score of the repository that imports without errors: its default export and its extended export are fixed
    points (the first sentence of the property quantifies over every such document, whatever wrote it)"""
    from .. import realscores as RS
    try:
        d, errs = kp.load(RS.path(case['real']))
    except Exception:  # noqa
        return Result(classes=['real-score-not-importable'])
    if errs:
        return Result(classes=['real-score-with-import-errors'])
    o1 = K.dumps(d)
    d2 = _reimport(o1, 'kern')
    o2 = K.dumps(d2)
    if o2 != o1:
        diff = [(x, y) for x, y in zip(o1.split('\n'), o2.split('\n')) if x != y][:3]
        raise Bad('not-fixed-point', f'{case["real"]}: dumps(loads(dumps(d))) differs: {diff}', cells=_diff_cells(o1, o2))
    k1 = K.dumps(d, encoding=kp.Encoding.eKern)
    if re.search(r'@(#+|-+|n)·[xXiIjZyY]', k1) or re.search(r'·[^·\t ]*[<>?xy&]', k1):
        # a note with an accidental whose first signifier is one of the eight characters the grammar also reads as an
        # accidental-display suffix, or a signifier out of < > ? x y & (they combine with their neighbours: '(' '<' written
        # without separator is the unit '(<'): the property's quantifier keeps those apart, only the plain leg applies
        return Result(nontrivial=False, classes=['real-score', 'real-score-display-suffix-ambiguity'], sample={'file': case['real']}, evals=1)
    d3 = _reimport(unheader(k1), 'ekern')
    k2 = K.dumps(d3, encoding=kp.Encoding.eKern)
    if k2 != k1:
        diff = [(x, y) for x, y in zip(k1.split('\n'), k2.split('\n')) if x != y][:3]
        raise Bad('ekern-not-fixed-point', f'{case["real"]}: extended export, separators removed, re-imported, re-exported: {diff}',
                  cells=_diff_cells(K.strip_sep(k1), K.strip_sep(k2)))
    return Result(nontrivial=o1.count('\n') > 20, classes=['real-score'], sample={'file': case['real'], 'lines': o1.count('\n')}, key=['real', case['real']], evals=2)


_NONREST = set(G.SIG) - set(G.REST_SIG)


def _is_chord_with_foreign_rest(cell):
    members = cell.split(' ')
    return len(members) >= 2 and any(re.fullmatch(r'[^a-gA-G]*r[^a-gA-G]*', m) and (set(m) & _NONREST) for m in members)


def f_chordrest(case, p):
    """KF-CHORDREST: the exported text does not re-import because a rest inside a chord was exported with a signifier
    of another chord member that the rest grammar does not accept"""
    if p.sig in ('not-fixed-point', 'ekern-not-fixed-point'):
        # same root cause, other symptom: the inherited signifiers are accepted by the rest grammar but read
        # differently there (e.g. '/j' is one rest decoration), so the second export differs - only in such chords
        cells = p.data.get('cells')
        return bool(cells) and all(_is_chord_with_foreign_rest(c) for c in cells)
    if p.sig not in ('kern-reimport-errors', 'ekern-reimport-errors', 'get_kern_from_ekern-reimport-errors'):
        return False
    errs = p.data.get('errs') or []
    if not errs:
        return False
    for enc in errs:
        members = enc.split(' ')
        if len(members) < 2:
            return False
        if not any(re.fullmatch(r'[^a-gA-G]*r[^a-gA-G]*', m) and (set(m) & _NONREST) for m in members):
            return False
    return True


FINDINGS = {'KF-CHORDREST': f_chordrest}


def run(ctx):
    n = 80 if ctx.quick else 2200
    from .. import realscores as RS
    fs = RS.files(max_bytes=20000 if ctx.quick else 60000)
    # the repository's own sample scores: every shard takes its share (all of them in the thorough tier, a seed-dependent quarter in quick)
    mine = [f for i, f in enumerate(fs) if i % ctx.nshards == ctx.shard and (not ctx.quick or (i // ctx.nshards + ctx.seed) % 4 == 0)]
    ctx.check_all([{'real': f} for f in mine], check_real)
    ctx.run_hypothesis(doc_pairs(D.profile('full', chord_optional_dur=True, hidden_bars=True)), check, max_examples=n, label='full')
    ctx.run_hypothesis(doc_pairs(D.profile('chordrest', kern_weight=6)), check, max_examples=max(15, n // 6), salt=1,
                       label='chordrest')
    # multi-character signifier units (elided slurs, editorial marks, footnotes, staff changes on slurs/beams): outside
    # the canonicity CLAIM, but the fixed-point clauses apply to every document that imports without errors
    ctx.run_hypothesis(doc_pairs(D.profile('full', ext_sigs=True, kern_weight=6)), check, max_examples=max(15, n // 5), salt=2,
                       label='multi-character-signifiers')


def replay(case):
    if 'real' in case:
        return check_real(case)
    return check(case)
