"""C10 - agnostic encoding depends only on staff position and accidental."""
import kernpy as kp
from hypothesis import strategies as st

from .. import docgen as D, grammar as G, kdoc as K, pitch as M, spine as S, xform as X
from ..common import Bad, Result

ID = 'C10'
SHARDS_THOROUGH = 16
SHARDS_QUICK = 4
CLEFS = ['G2', 'F3', 'F4', 'C1', 'C2', 'C3', 'C4']
MARKS = ['', 'v', 'vv', '^', '^^']
RULE = ('(a) EXHAUSTIVE grid 7 clefs x 5 octave marks x 7 letters x 5 alterations x octaves 0..8 = 11,025 calls of '
        'pitch_to_gkern_string, each checked against the diatonic translation model (same staff position under G2), '
        'plus the laws that do not use the bottom-line constant (G2 identity, one step up moves the result one step up, '
        'octave marks irrelevant, accidental carried over, bottom line -> e).  (b) the natural sign and the accidental '
        'display suffixes cannot be put into an AgnosticPitch, so the grid 7x5x7x9 (x accidental in n, #X, -y, none) is '
        'also run as one-note documents exported in both agnostic encodings (a seed-dependent quarter of it in the '
        'quick tier, all of it in the thorough tier).  (c) Hypothesis documents (profile "agnostic": clef changes, '
        'clef changes inside sub-spines, joins, chords, rests - in a third of the documents also rests in front of the first clef -, **root spines): akern/aekern must equal kern/ekern '
        'cell for cell except for the pitch letters of notes, converted under the clef the spine-path model says is in '
        'force; for documents without accidentals and chords also a transposed copy (tokens built by to_transposed): its agnostic '
        'exports equal those of its own kern text imported again.  Non-trivial: clef other than G2 with an accidental (grid) / document with a clef change or a '
        'sub-spine.')
ASSUMPTIONS = ['the bottom-line pitch of each clef is read from Clef.bottom_line(): the property is stated relative to it; '
               'a consistent change of that constant is invisible here (DESIGN.md section 6)',
               'after a join the merged path continues under the first joined sub-spine, so its clef governs']


def name_of(l, alt):
    return M.LETTERS[l] + ('+' * alt if alt > 0 else '-' * -alt)


def acc_text(alt):
    return '#' * alt if alt > 0 else '-' * -alt


def check_grid(case):
    clef_name, mark = case['clef'], case['mark']
    ctext = '*clef' + clef_name[0] + mark + clef_name[1]
    clef = kp.ClefFactory.create_clef(ctext)
    plain = kp.ClefFactory.create_clef('*clef' + clef_name)
    bl = clef.bottom_line()
    b_l, b_o = M.LETTERS.index(bl.name[0]), bl.octave
    if len(bl.name) != 1:
        raise Bad('bottom-line-altered', f'bottom line of {ctext} is {bl.name}')
    if (plain.bottom_line().name, plain.bottom_line().octave) != (bl.name, bl.octave):
        raise Bad('octave-mark', f'octave mark changes the bottom line: {ctext}')
    e = kp.pitch_to_gkern_string(kp.AgnosticPitch(bl.name, bl.octave), clef)
    if e != 'e':
        raise Bad('bottom-line-not-e', f'bottom line of {ctext} maps to {e!r}')
    evals = 0
    keys = []
    for l in range(7):
        for alt in range(-2, 3):
            prev = None
            for o in range(0, 9):
                got = kp.pitch_to_gkern_string(kp.AgnosticPitch(name_of(l, alt), o), clef)
                evals += 1
                exp = M.agnostic_letters(l, o, b_l, b_o) + acc_text(alt)
                if got != exp:
                    raise Bad('grid', f'pitch_to_gkern_string({name_of(l, alt)}{o}, {ctext}) = {got!r}, model {exp!r}')
                # the same pitch with its name in the other documented spellings of AgnosticPitch ('F#', 'Bb', lower case)
                if alt != 0:
                    for spelled in (M.LETTERS[l] + ('#' * alt if alt > 0 else 'b' * -alt), name_of(l, alt).lower()):
                        other = kp.pitch_to_gkern_string(kp.AgnosticPitch(spelled, o), clef)
                        evals += 1
                        if other != exp:
                            raise Bad('grid-name-spelling', f'pitch_to_gkern_string(AgnosticPitch({spelled!r}, {o}), {ctext}) = {other!r}, model {exp!r}')
                if clef_name == 'G2' and got != M.spell(l, alt, o):
                    raise Bad('g2-identity', f'G2: {M.spell(l, alt, o)!r} -> {got!r}')
                # one diatonic step up (next letter) moves the result one step up, independently of the constant
                l2, o2 = M.from_diatonic(M.diatonic(l, o) + 1)
                up = kp.pitch_to_gkern_string(kp.AgnosticPitch(name_of(l2, alt), o2), clef)
                gl, go = M.parse_letters(got.rstrip('#-'))
                ul, uo = M.parse_letters(up.rstrip('#-'))
                if M.diatonic(ul, uo) - M.diatonic(gl, go) != 1:
                    raise Bad('translation', f'{ctext}: step from {name_of(l, alt)}{o} moves the agnostic pitch by {M.diatonic(ul, uo) - M.diatonic(gl, go)}')
                if clef_name != 'G2' and alt != 0:
                    keys.append([ctext, l, alt, o])
    r = Result(nontrivial=bool(keys), classes=['grid', 'clef=' + clef_name], evals=evals,
               sample={'clef': ctext, 'example': {'pitch': 'C#4', 'agnostic': kp.pitch_to_gkern_string(kp.AgnosticPitch('C+', 4), clef)}})
    r.keys = keys
    return r


ACCS = ['', 'n', '#X', '-y', '##', '--', 'nX', '#']


def check_onenote(case):
    clef_name, mark, l, o = case['clef'], case['mark'], case['l'], case['o']
    ctext = '*clef' + clef_name[0] + mark + clef_name[1]
    bl = kp.ClefFactory.create_clef(ctext).bottom_line()
    b_l, b_o = M.LETTERS.index(bl.name[0]), bl.octave
    p = M.kern_letters(l, o)
    conv = M.agnostic_letters(l, o, b_l, b_o)
    evals = 0
    for acc in ACCS:
        text = f'**kern\n{ctext}\n4{p}{acc}\n*-\n'
        d = K.loads_clean(text)
        ak = K.dumps(d, encoding=kp.Encoding.agnosticKern)
        aek = K.dumps(d, encoding=kp.Encoding.agnosticExtendedKern)
        evals += 2
        if ak != f'**akern\n{ctext}\n4{conv}{acc}\n*-\n':
            raise Bad('one-note-akern', f'{text!r} -> {ak!r}, expected pitch {conv}{acc}')
        if aek != f'**aekern\n{ctext}\n4@{conv}{acc}\n*-\n':
            raise Bad('one-note-aekern', f'{text!r} -> {aek!r}, expected pitch {conv}{acc}')
    return Result(nontrivial=clef_name != 'G2', classes=['one-note-docs'], evals=evals, sample=f'**kern / {ctext} / 4{p}n / *-')


@st.composite
def doc_cases(draw):
    P = D.profile('agnostic', kern_weight=5, types=['**kern', '**kern', '**root', '**text', '**dynam'], comments=False,
                  others=False, max_body=12)
    doc = draw(D.documents(P))
    if draw(st.integers(0, 2)) == 0:
        # rests in front of the first clef: a rest occupies no staff position, so the agnostic text needs no clef for it
        from .. import grammar as G
        h = next(i for i, r in enumerate(doc['rows']) if 'c' in r)
        for j in range(draw(st.integers(1, 2))):
            cells = [G.note_cell_from([draw(G.rests(sigs=False))], [[]]) if t == '**kern' and draw(st.integers(0, 3)) else G.null_cell()
                     for t in doc['types']]
            if all(c['k'] == 'null' for c in cells):
                continue
            doc['rows'].insert(h + 1 + j, {'c': cells})
    return {'doc': doc}


def check_doc(case):
    doc = case['doc']
    text = S.render(doc)
    kdoc = K.loads_clean(text)
    a = S.analyze(doc)
    base = X.aligned(doc, kdoc, a)
    out = {e: K.dumps(kdoc, what=e, encoding=K.ENCODINGS[e]) for e in ('kern', 'ekern', 'akern', 'aekern')}
    g = {e: K.grid(out[e]) for e in out}
    for plain, agn in (('kern', 'akern'), ('ekern', 'aekern')):
        if len(g[plain]) != len(g[agn]) or any(len(x) != len(y) for x, y in zip(g[plain], g[agn])):
            raise Bad('shape', f'{agn} and {plain} have different shapes\n{out[plain]}---\n{out[agn]}')
        for ri, (row, rp, ra) in enumerate(zip(base, g[plain], g[agn])):
            for c, cp, ca in zip(row, rp, ra):
                if 'members' in c:
                    continue
                if c['kind'] == 'header':
                    if ca != '**' + K.PREFIX[agn] + c['type'][2:]:
                        raise Bad('header', f'{ca!r}')
                elif ca != cp:
                    raise Bad('non-note-differs', f'{agn} cell {ca!r} vs {plain} cell {cp!r}')
        diff = X.same(g[agn], X.render(X.T(base, agn)))
        if diff:
            raise Bad('agnostic-doc', f'{agn}: {diff}\n--- source\n{text}--- {agn}\n{out[agn]}')
        # the file entry point (a '.krn' path): the requested encoding, not one guessed from the file name
        if K.via_dump_file(kdoc, expect=out[agn], encoding=K.ENCODINGS[agn]) != out[agn]:
            raise Bad('dump-file', f'kernpy.dump(encoding={agn}) writes a different text than dumps returns')
    # the same under category selections: the agnostic text is still the kern text with the pitch letters converted
    from .. import cats
    TC = kp.TokenCategory
    for excl in (['DURATION'], ['DECORATION'], ['ALTERATION', 'DECORATION']):
        sel = cats.selected(None, excl)
        for agn in ('akern', 'aekern'):
            gt = K.dumps(kdoc, what=agn, encoding=K.ENCODINGS[agn], exclude=[TC[x] for x in excl])
            diff = X.same(K.grid(gt), X.render(X.T(X.F(base, sel), agn)))
            if diff:
                raise Bad('agnostic-doc-filtered', f'{agn} with exclude={excl}: {diff}\n--- source\n{text}--- {agn}\n{gt}')
    # the same for a document produced by kernpy itself: a transposed copy (the tokens are built by to_transposed, not by the
    # parser) exports to the agnostic text of the document one gets by importing its kern export.  Only documents whose
    # notes have no accidental and no chord take part (what to_transposed does to those is C15's matter, with findings of its own)
    notes_ = [n for _, _, c in S.cells(doc) if 'notes' in c for n in c['notes'] if n['p'] != 'r']
    plain_doc = notes_ and not any(n['acc'] for n in notes_) and not any(c['k'] == 'chord' for _, _, c in S.cells(doc))
    tclass = []
    if plain_doc:
        iv, dr = [('M2', 'up'), ('m2', 'up'), ('M3', 'down'), ('A4', 'up'), ('m3', 'down'), ('P5', 'up')][len(text) % 6]
        src2 = K.loads_clean(text)  # a copy of its own: to_transposed is known to rewrite its source (KF-C15-SHARED)
        try:
            t2 = src2.to_transposed(iv, dr)
        except Exception:  # noqa  (a result that cannot be spelled)
            t2 = None
        if t2 is not None:
            tk = K.dumps(t2, what='kern of the transposed copy')
            rel, rerr = kp.loads(tk)
            if not rerr:
                tclass = ['transposed-copy']
                for agn in ('akern', 'aekern'):
                    want = K.dumps(rel, what=agn, encoding=K.ENCODINGS[agn])
                    got_ = K.dumps(t2, what=agn + ' of the transposed copy', encoding=K.ENCODINGS[agn])
                    if got_ != want:
                        dl = [(x, y) for x, y in zip(got_.split('\n'), want.split('\n')) if x != y][:3]
                        raise Bad('agnostic-of-transposed-copy', f'{agn} export of the copy transposed {iv} {dr} differs from the {agn} export of its own kern '
                                                                 f'text imported again: {dl}\n--- kern of the copy\n{tk}')
    clefs = [c['t'] for _, _, c in S.cells(doc) if c.get('sig') == 'clef']
    nt = len(set(clefs)) > 1 or a.has_split
    changes_in_sub = any(c.get('sig') == 'clef' and a.spines[i].count(a.spines[i][k]) > 1 for i, k, c in S.cells(doc))
    return Result(nontrivial=nt, classes=K.doc_classes(doc, a) + (['clef-change-in-sub-spine'] if changes_in_sub else []) +
                  (['several-clefs'] if len(set(clefs)) > 1 else []) + tclass, sample=text, evals=4 + 2 * len(tclass), key=text)


def run(ctx):
    grid = [{'clef': c, 'mark': m} for c in CLEFS for m in MARKS]
    ctx.check_all([g for i, g in enumerate(grid) if i % ctx.nshards == ctx.shard], check_grid)
    ones = [{'clef': c, 'mark': m, 'l': l, 'o': o} for c in CLEFS for m in MARKS for l in range(7) for o in range(9)]
    if ctx.quick:
        ones = [x for i, x in enumerate(ones) if (i + ctx.seed) % 4 == 0]
    ctx.check_all([x for i, x in enumerate(ones) if i % ctx.nshards == ctx.shard], check_onenote)
    n = (200 if ctx.quick else 8000) // ctx.nshards
    ctx.run_hypothesis(doc_cases(), check_doc, max_examples=n, label='documents')
    ctx.rec.exhaustive = True
    ctx.rec.notes['exhaustive_part'] = 'grid 7x5x7x5x9 through pitch_to_gkern_string' + ('' if ctx.quick else '; one-note documents 7x5x7x9x8 accidentals')


def replay(case):
    if 'doc' in case:
        return check_doc(case)
    if 'l' in case:
        return check_onenote(case)
    return check_grid(case)
