"""C19 - concatenation indexes address the fragments."""
import itertools

import kernpy as kp
from hypothesis import strategies as st

from .. import docgen as D, kdoc as K, measures as MS, snapshot as SN, spine as S
from ..common import Bad, Result, Problem

ID = 'C19'
SHARDS_THOROUGH = 16
SHARDS_QUICK = 4
RULE = ('Hypothesis **kern scores of C07\'s domain (kern-only, 1-3 spines, pick-up or not, final barline or not, nested '
        're-joined splits) cut in front of barline rows into 1-6 fragments, with four separator conventions (separator '
        '"\\n" and fragments without final newline; separator "" and fragments ending in a newline; separator "\\n" and '
        'fragments ending in a newline, i.e. blank lines between fragments; separator "" and a score text without final '
        'newline); a third of the scores keep a split open across barlines, so that a cut can fall inside a split '
        'section; in half of the scores signatures change in some spines only (inside a measure / directly after a barline), '
        'so that the spines carry different numbers of signatures where a fragment starts; in half of the scores a spine may end early (a "*-" cell while the other spines go on); in half of the cases one measure of the score '
        'is written twice (literal repeat: two fragments can be equal strings) and the cut sets include the one that '
        'isolates both copies.  Thorough tier: EVERY set of <=5 cut '
        'positions x the four conventions for each document; quick tier: all single cuts, all pairs and 4 drawn larger '
        'sets per document with a convention rotating per cut set.  Oracle: concat(fragments) must give a document whose '
        'deep snapshot and six exports equal those of loads(joined text); one (from, to) pair per fragment; consecutive '
        'pairs (next from = to + 1); first from in {0, 1}; last to == measures_count(); the data lines of '
        'dumps(doc, from_measure=from, to_measure=to) are exactly the exported lines of the rows of fragment i (row '
        'alignment from the model).  Scores without any measure (header, interpretations, terminator) are concatenated as a single fragment: one pair, to == 0, exportable.  The repository\'s own sample scores (up to 9 kB) are cut in front of drawn barline lines as well (document equality, pair arithmetic, pair size == barline lines of the fragment, partition of the data lines).  An evaluation is one (document, cut set, convention); non-trivial: >=3 fragments and '
        'a fragment with >=2 measures.')
ASSUMPTIONS = ['measure model of C07 (kv/measures.py)', 'a "data line" is a line that is neither an interpretation nor a barline',
               'a first fragment that contains no measure at all (preamble only) makes concat raise: known finding '
               'KF-C19-NOMEASURE, recognised by that exact situation']
CONV = [('\n', False), ('', True), ('\n', True), ('', 'all-but-last')]


@st.composite
def cases(draw):
    doc = draw(D.measure_documents(D.mprofile(max_measures=5, others=False, rejoin_before_bar=draw(st.integers(0, 2)) > 0,
                                               partial_term=draw(st.booleans()),
                                               # signature changes in some spines only, inside a measure or directly after a
                                               # barline: at a cut the spines then carry different numbers of signatures
                                               sig_changes=draw(st.booleans()), sig_after_bar=draw(st.booleans()))))
    extra = [sorted(set(draw(st.lists(st.integers(0, 7), min_size=3, max_size=5)))) for _ in range(4)]
    return {'doc': doc, 'extra': extra, 'rot': draw(st.integers(0, 3)),
            'dup': draw(st.one_of(st.none(), st.integers(0, 4)))}


def _bars(doc):
    return [i for i, row in enumerate(doc['rows']) if 'c' in row and row['c'][0]['k'] == 'bar' and i > 0]


def duplicated(doc, k):
    """the document with one measure (a barline row and everything up to the next barline row) written twice, so that
    two fragments can be equal strings; None when no measure of the document can be repeated literally"""
    bars = _bars(doc)
    ok = [j for j in range(len(bars) - 1) if len(doc['rows'][bars[j]]['c']) == len(doc['rows'][bars[j + 1]]['c'])]
    if not ok:
        return None, None
    j = ok[k % len(ok)]
    block = doc['rows'][bars[j]:bars[j + 1]]
    out = dict(doc)
    out['rows'] = doc['rows'][:bars[j + 1]] + [dict(r) for r in block] + doc['rows'][bars[j + 1]:]
    return out, j


def cut_sets(case, bars, exhaustive, dup_at=None):
    nb = len(bars)
    if dup_at is not None and not exhaustive:
        for ci in range(4):  # both copies of the repeated measure as fragments of their own
            yield [dup_at, dup_at + 1, dup_at + 2], ci
    if exhaustive:
        for r in range(0, min(5, nb) + 1):
            for sub in itertools.combinations(range(nb), r):
                for ci in range(4):
                    yield list(sub), ci
        return
    j = case['rot']
    yield [], j % 4
    for r in (1, 2):
        for sub in itertools.combinations(range(nb), r):
            j += 1
            yield list(sub), j % 4
    for e in case['extra']:
        sub = sorted({x % nb for x in e}) if nb else []
        if len(sub) >= 3:
            j += 1
            yield sub[:5], j % 4


def check_case(case, exhaustive):
    doc, dup_at = case['doc'], None
    if case.get('dup') is not None:
        d2, dup_at = duplicated(doc, case['dup'])
        doc = d2 or doc
    text = S.render(doc)
    lines = S.render(doc, final=False).split('\n')
    kd = K.loads_clean(text)
    a = S.analyze(doc)
    B, label = MS.choose_numbering(doc, kd)
    full = MS.aligned_full(doc, kd, a)
    bars = _bars(doc)
    problems, keys, evals = [], [], 0
    for sub, ci in cut_sets(case, bars, exhaustive, dup_at):
        sep, final_nl = CONV[ci]
        cuts = [0] + [bars[x] for x in sub] + [len(lines)]
        frag_rows = [list(range(cuts[i], cuts[i + 1])) for i in range(len(cuts) - 1)]
        frags = ['\n'.join(lines[r] for r in rows) + ('\n' if final_nl else '') for rows in frag_rows]
        if final_nl == 'all-but-last':
            frags[-1] = frags[-1][:-1]  # the score text does not end with a newline
        joined = ''.join(sep + f for f in frags)
        evals += 1
        tag = f'cuts before rows {cuts[1:-1]}, separator {sep!r}, final newline {final_nl}'
        first_has_measure = any(r in B for r in frag_rows[0])
        try:
            cdoc, pairs = kp.concat(frags, separator=sep)
        except Exception as e:  # noqa
            problems.append(Problem('concat-raised', f'concat raised {type(e).__name__}: {e} ({tag})\n{text}',
                                    {'exc': type(e).__name__, 'msg': str(e), 'first_fragment_has_measure': first_has_measure}))
            continue
        rdoc, rerrs = kp.loads(joined)
        d = SN.first_difference(SN.snapshot(rdoc), SN.snapshot(cdoc))
        if d:
            problems.append(Problem('document-differs', f'concat document differs from loads(joined): {d} ({tag})', {}))
            continue
        for enc in K.ENCODINGS:
            try:
                x, y = kp.dumps(cdoc, encoding=K.ENCODINGS[enc]), kp.dumps(rdoc, encoding=K.ENCODINGS[enc])
            except Exception:  # agnostic encodings need supported clefs; both must behave alike
                continue
            if x != y:
                problems.append(Problem('export-differs', f'{enc} export of the concat document differs from loads(joined) ({tag})', {}))
        if len(pairs) != len(frags):
            problems.append(Problem('pair-count', f'{len(pairs)} pairs for {len(frags)} fragments ({tag})', {}))
            continue
        M = cdoc.measures_count()
        if pairs[-1][1] != M:
            problems.append(Problem('last-to', f'last pair {pairs[-1]} but measures_count() = {M} ({tag})', {}))
        if pairs[0][0] not in (0, 1):
            problems.append(Problem('first-from', f'first pair {pairs[0]} ({tag})', {}))
        if any(pairs[i + 1][0] != pairs[i][1] + 1 for i in range(len(pairs) - 1)):
            problems.append(Problem('not-consecutive', f'pairs {pairs} ({tag})', {}))
            continue
        for i, (lo, hi) in enumerate(pairs):
            exp_lines = ['\t'.join(cells) for ri, cells in full if ri in set(frag_rows[i])
                         and not MS.is_interp_line(cells) and not cells[0].startswith('=')]
            if hi < lo:
                # a fragment without any measure start cannot be addressed
                problems.append(Problem('empty-pair', f'fragment {i} got the pair {(lo, hi)} ({tag})', {'frag_lines': exp_lines}))
                continue
            try:
                ex = kp.dumps(cdoc, from_measure=lo, to_measure=hi)
            except Exception as e:  # noqa
                problems.append(Problem('pair-export-raised', f'dumps(from_measure={lo}, to_measure={hi}) raised {e!r} ({tag}, pairs {pairs})', {}))
                continue
            got_lines = ['\t'.join(c) for c in K.grid(ex) if not MS.is_interp_line(c) and not c[0].startswith('=')]
            if got_lines != exp_lines:
                problems.append(Problem('pair-lines', f'pair {i} = {(lo, hi)} of {pairs} exports data lines {got_lines}; fragment {i} has {exp_lines} ({tag})\n{text}',
                                        {'pairs': [list(p) for p in pairs]}))
                break
        nm = [sum(1 for r in rows if r in B) for rows in frag_rows]
        if len(frags) >= 3 and max(nm) >= 2:
            keys.append([text, cuts, ci])
    r = Result(nontrivial=bool(keys), evals=evals, classes=K.doc_classes(doc, a) + [label] + (['pickup'] if doc.get('pickup') else [])
               + (['measure-written-twice'] if dup_at is not None else []),
               sample={'document': text, 'cut_sets': 'exhaustive' if exhaustive else 'singles, pairs, drawn'})
    r.keys = keys
    r.problems = problems
    return r


def check_measureless(case):
    """a score without any measure (header, interpretations, terminator) is a valid score all the same: as the only
    fragment it concatenates to itself, gets one pair whose 'to' is the measure count (0), and that pair can be exported"""
    text = S.render(case['doc'])
    evals = 0
    for sep in ('\n', ''):
        tag = f'measure-less score as the only fragment, separator {sep!r}'
        try:
            cdoc, pairs = kp.concat([text], separator=sep)
        except Exception as e:  # noqa
            raise Bad('concat-raised', f'concat raised {type(e).__name__}: {e} ({tag})\n{text}')
        evals += 1
        rdoc, _ = kp.loads(sep + text)
        d = SN.first_difference(SN.snapshot(rdoc), SN.snapshot(cdoc))
        if d:
            raise Bad('document-differs', f'concat document differs from loads(joined): {d} ({tag})')
        if len(pairs) != 1 or pairs[0][1] != len(cdoc.measure_start_tree_stages) or pairs[0][0] not in (0, 1):
            raise Bad('pairs', f'pairs {pairs} for one fragment and {len(cdoc.measure_start_tree_stages)} measures ({tag})')
        lo, hi = pairs[0]
        if hi >= lo:
            try:
                ex = kp.dumps(cdoc, from_measure=lo, to_measure=hi)
            except Exception as e:  # noqa
                raise Bad('pair-export-raised', f'dumps(from_measure={lo}, to_measure={hi}) raised {e!r} ({tag}, pairs {pairs})\n{text}')
            got_lines = ['\t'.join(c) for c in K.grid(ex) if not MS.is_interp_line(c) and not c[0].startswith('=') and not c[0].startswith('!')]
            if got_lines:
                raise Bad('pair-lines', f'pair {pairs[0]} exports data lines {got_lines}; the fragment has none ({tag})')
    return Result(nontrivial=len(case['doc']['rows']) > 2, evals=evals, classes=['measureless'], sample={'document': text})


def check_real(case):
    """a sample score of the repository cut in front of drawn barline lines of its text: concat == import of the joined text,
    one pair per fragment, consecutive, the last one ends at the measure count, fragment i >= 1 gets as many measures as it has
    barline lines, and the pairs' excerpts partition the data lines of the whole export"""
    from .. import realscores as RS
    with open(RS.path(case['real']), 'rb') as f:
        rawb = f.read()
    try:
        text = rawb.decode('utf-8').replace('\r\n', '\n')
    except UnicodeDecodeError:
        return Result(classes=['real-score-not-utf8'])
    try:
        rdoc0, errs = kp.loads(text)
    except Exception:  # noqa
        return Result(classes=['real-score-not-importable'])
    if errs or '**kern' not in kp.spine_types(rdoc0):
        return Result(classes=['real-score-with-import-errors'])
    lines = [l for l in text.split('\n') if l != '']
    bars = [i for i, l in enumerate(lines) if l.startswith('=') and i > 0]
    M = len(rdoc0.measure_start_tree_stages)
    if len(bars) < 2 or M > 80:
        return Result(classes=['real-score-too-few-barlines' if len(bars) < 2 else 'real-score-too-long'])
    cut_idx = sorted({bars[x % len(bars)] for x, _ in case['raw'][:3]})
    cuts = [0] + cut_idx + [len(lines)]
    frags = ['\n'.join(lines[cuts[i]:cuts[i + 1]]) for i in range(len(cuts) - 1)]
    tag = f'{case["real"]}, cuts before lines {cut_idx}'
    try:
        cdoc, pairs = kp.concat(frags, separator='\n')
    except Exception as e:  # noqa
        raise Bad('concat-raised', f'concat raised {type(e).__name__}: {e} ({tag})')
    rdoc, _ = kp.loads('\n' + '\n'.join(frags))
    d = SN.first_difference(SN.snapshot(rdoc), SN.snapshot(cdoc))
    if d:
        raise Bad('document-differs', f'concat document differs from loads(joined): {d} ({tag})')
    if len(pairs) != len(frags):
        raise Bad('pair-count', f'{len(pairs)} pairs for {len(frags)} fragments ({tag})')
    if pairs[-1][1] != cdoc.measures_count() or pairs[0][0] not in (0, 1) or any(pairs[i + 1][0] != pairs[i][1] + 1 for i in range(len(pairs) - 1)):
        raise Bad('not-consecutive', f'pairs {pairs}, measures_count() = {cdoc.measures_count()} ({tag})')
    for i in range(1, len(frags)):
        nb = sum(1 for l in lines[cuts[i]:cuts[i + 1]] if l.startswith('='))
        if pairs[i][1] - pairs[i][0] + 1 != nb:
            raise Bad('pair-size', f'fragment {i} has {nb} barline lines and got the pair {pairs[i]} of {pairs} ({tag})')

    def data(t):
        return [l for l in t.split('\n') if l and l[0] not in '*=' and not l.startswith('!!')]
    full = kp.dumps(cdoc)
    flines = [l for l in full.split('\n') if l]
    B = RS.measure_lines(flines)
    got = []
    for lo, hi in pairs:
        try:
            got += data(kp.dumps(cdoc, from_measure=lo, to_measure=hi))
        except Exception as e:  # noqa
            raise Bad('pair-export-raised', f'dumps(from_measure={lo}, to_measure={hi}) raised {e!r} ({tag}, pairs {pairs})')
    want = data('\n'.join(flines[(B[0] if B and pairs[0][0] == 1 else 0):]))
    if got != want:
        raise Bad('pair-lines', f'the excerpts of the pairs {pairs} hold {len(got)} data lines, the whole export {len(want)} ({tag})')
    return Result(nontrivial=len(frags) >= 3, evals=1 + len(pairs), classes=['real-score', f'fragments={len(frags)}'], sample={'file': case['real'], 'cuts': cut_idx},
                  key=['real', case['real'], cut_idx])


def f_nomeasure(case, p):
    """KF-C19-NOMEASURE: the first fragment holds no measure at all (preamble only), so measures_count() of the first
    prefix raises Exception('No measures found') inside concat"""
    return (p.sig == 'concat-raised' and p.data.get('exc') == 'Exception' and p.data.get('msg') == 'No measures found'
            and p.data.get('first_fragment_has_measure') is False)


FINDINGS = {'KF-C19-NOMEASURE': f_nomeasure}


def run(ctx):
    from .. import realscores as RS
    rc = RS.cases(max_bytes=9000, nranges=3)
    if rc is not None:
        ctx.run_hypothesis(rc, check_real, max_examples=max(3, (16 if ctx.quick else 200) // ctx.nshards), salt=9, label='real-scores')
    from .c07 import measureless_cases
    ctx.run_hypothesis(measureless_cases(), check_measureless, max_examples=max(4, (16 if ctx.quick else 160) // ctx.nshards), salt=3, label='measureless')
    if ctx.quick:
        ctx.run_hypothesis(cases(), lambda c: check_case(c, False), max_examples=max(8, 100 // ctx.nshards), label='concat')
    else:
        ctx.run_hypothesis(cases(), lambda c: check_case(c, True), max_examples=max(4, 320 // ctx.nshards), label='concat-exhaustive-cuts')


def replay(case):
    if 'real' in case:
        return check_real(case)
    if case['doc'].get('profile') == 'measureless':
        return check_measureless(case)
    return check_case(case, True)
