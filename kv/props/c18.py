"""C18 - every spine type imports every token without loss."""
import kernpy as kp
from hypothesis import strategies as st

from .. import cats, docgen as D, grammar as G, kdoc as K, malformed as MF, spine as S
from ..common import Bad, Result

ID = 'C18'
HEADS = ['**text', '**dynam', '**dyn', '**harm', '**mxhm', '**fing', '**foo', '**silbe', '**Xyz',
         # unknown types whose names merely resemble a known one
         '**dynamics', '**dyn2', '**texts', '**Text', '**harmony', '**fingers', '**mxhm2', '**kernel']
OWN = {'**text': {'LYRICS'}, '**dynam': {'DYNAMICS'}, '**dyn': {'DYNAMICS'}, '**harm': {'HARMONY'}, '**fing': {'FINGERING'},
       '**mxhm': {'HARMONY', 'MHXM'}}
STRUCT_ROOTS = ['STRUCTURAL', 'SIGNATURES', 'EMPTY', 'BARLINES', 'IMAGE_ANNOTATIONS', 'COMMENTS']
STRUCT = set().union(*[cats.DESC_STAR[c] for c in STRUCT_ROOTS])
RULE = ('Enumerated: every header x (8 kinds of white space in front of / 4 behind 11 shared-structure texts) and four bounding boxes whose '
        'page name contains a blank.  ' +
        'Headers **text, **dynam, **dyn, **harm, **mxhm, **fing and eleven unknown ones (eight of them near-misses of known names such as **dynamics, **Text, **kernel) x four token corpora, each token '
        'imported by a long-lived importer of that type (so every token is also preceded by a random history) and by a '
        'fresh one: (1) structural tokens labelled by grammar alternative - every barline type, null tokens, clefs, key '
        'signatures, time signatures, meter symbols, staff and bounding-box interpretations - must be recognised '
        'exactly as by a fresh **kern importer and carry the labelled category; (2) kern tokens that are not shared '
        'structure (notes, rests, chords, tandem interpretations) and (3) free text (Unicode words, quotes, commas, '
        'rest-like and note-like words) must come back verbatim (encoding == export == text) under the spine type\'s '
        'own category; (4) arbitrary strings without tab/newline and malformed kern tokens: never raise, and either '
        'equal the kern importer\'s structural token or are verbatim with the own category.  Document level: the same '
        'rows presented under two different non-kern headers give the same measure index and the same structural '
        'tokens; the same column twice side by side under two different types gives each cell its own type\'s token.  '
        'Non-trivial: a structural token other than a plain = * . ; free text that contains a character the '
        'kern lexer knows.')
ASSUMPTIONS = ['own categories from each importer\'s documentation: **text LYRICS, **dynam/**dyn DYNAMICS, **harm HARMONY, **fing '
               'FINGERING, unknown types OTHER; for **mxhm either HARMONY (used by the importer) or MHXM (reserved by '
               'the enum) is accepted, but it must be the same for every cell',
               'shared structure = closure of STRUCTURAL, SIGNATURES, EMPTY, BARLINES, IMAGE_ANNOTATIONS in the README tree']


def tsig(t):
    return [type(t).__name__, t.category.name, t.encoding, t.export()]


def own(h):
    return OWN.get(h, {'OTHER'})


@st.composite
def tokens(draw):
    x = draw(st.integers(0, 13))
    if x >= 12:
        # a tandem interpretation that is not shared structure, followed by characters the grammar stops at
        t = draw(st.sampled_from([t for t in G.OTHER_TANDEMS if not t.startswith('*staff')]))
        return {'t': t + draw(st.sampled_from(['_2', "'", '-B', '1', '.', 'b', 'x', '!', ' 2', 'é', '2'])), 'kind': 'kern-nonstruct'}
    if x < 4:
        c = draw(st.one_of(G.barlines(), G.clefs(), G.keysigs(), G.timesigs(), G.meters(), st.just(G.null_cell()),
                           st.just(G.nullinterp_cell()),
                           st.sampled_from(['*staff1', '*staff2', '*staff+3', '*staff1/2'] + G.BBOXES).map(
                               lambda t: {'t': t, 'cat': 'BOUNDING_BOXES' if t.startswith('*xywh') else 'STRUCTURAL'})))
        return {'t': c['t'], 'kind': 'struct', 'cat': c['cat']}
    if x < 6:
        c = draw(st.one_of(G.kern_data_cells(null_weight=0), G.other_tandems()))
        if c['t'].startswith('*staff') or c['t'].startswith('*xywh'):
            return {'t': c['t'], 'kind': 'struct', 'cat': 'BOUNDING_BOXES' if c['t'].startswith('*xywh') else 'STRUCTURAL'}
        return {'t': c['t'], 'kind': 'kern-nonstruct'}
    if x < 9:
        y = draw(st.integers(0, 7))
        if y == 0:
            # a tandem interpretation that is not shared structure, followed by characters the grammar stops at
            c = draw(G.other_tandems())
            if not (c['t'].startswith('*staff') or c['t'].startswith('*xywh') or c['t'].startswith('*I') or c['t'].startswith('*mI')):
                return {'t': c['t'] + draw(st.sampled_from(['_2', "'", '-B', '1', '.', 'b', 'x', '!', ' 2', 'é'])), 'kind': 'kern-nonstruct'}
        if y == 1:
            # cells that consist of blanks only are text as well
            return {'t': draw(st.sampled_from([' ', '  ', '\u00a0', '\u3000', ' \u00a0 '])), 'kind': 'blank'}
        if y == 2:
            # shared structure behind (or in front of) white space is not that structure any more; what it is instead is
            # decided like for any other string: the kern importer's structure, or verbatim text of the own category
            c = draw(st.one_of(G.barlines(), G.clefs(), G.timesigs(), G.meters(), st.just(G.null_cell()), st.just(G.nullinterp_cell())))
            pad = draw(st.sampled_from([' ', '  ', '\x0c', '\u00a0', '\u2028', '\u3000']))
            return {'t': (pad + c['t']) if draw(st.integers(0, 3)) else (c['t'] + pad), 'kind': 'arbitrary'}
        return {'t': draw(G.free_texts(sep_chars=draw(st.integers(0, 5)) == 0)), 'kind': 'free'}
    if x < 10:
        return {'t': draw(MF.malformed())['t'], 'kind': 'arbitrary'}
    t = draw(st.text(st.characters(blacklist_categories=('Cs',), blacklist_characters='\t\n\r\x0b\x0c\x1c\x1d\x1e\x85  '),
                     min_size=1, max_size=10))
    return {'t': t, 'kind': 'arbitrary'}


@st.composite
def token_cases(draw):
    return {'head': draw(st.sampled_from(HEADS)), 'toks': draw(st.lists(tokens(), min_size=1, max_size=12))}


def check_tokens(case):
    h = case['head']
    imp = kp.createImporter(h)
    seen_own = set()
    keys, classes = [], ['head=' + h]
    for tk in case['toks']:
        t, kind = tk['t'], tk['kind']
        try:
            tok = imp.import_token(t)
        except Exception as e:  # noqa
            raise Bad('raised', f'{h} importer raised {type(e).__name__}: {e} for cell {t!r}', t=t)
        try:
            fresh = kp.createImporter(h).import_token(t)
        except Exception as e:  # noqa
            raise Bad('raised-fresh', f'fresh {h} importer raised {e!r} for {t!r}', t=t)
        if tsig(tok) != tsig(fresh):
            raise Bad('history', f'{h}: {t!r} imports as {tsig(tok)} after {[x["t"] for x in case["toks"]]} but as {tsig(fresh)} with a fresh importer')
        try:
            k = kp.KernSpineImporter().import_token(t)
            ks = tsig(k)
        except Exception:
            k, ks = None, None
        structural = k is not None and k.category.name in STRUCT
        verbatim_own = tok.encoding == t and tok.export() == t and tok.category.name in own(h)
        classes.append('corpus=' + kind)
        if kind == 'struct':
            if not structural:
                raise Bad('harness-label', f'{t!r} is labelled structural but the kern importer gives {ks}')
            if tsig(tok) != ks:
                raise Bad('structural-not-recognised', f'{h}: shared structure {t!r} imports as {tsig(tok)}; a **kern spine gives {ks}', t=t, head=h)
            if tok.category.name != tk['cat']:
                raise Bad('structural-category', f'{h}: {t!r} has category {tok.category.name}, documented {tk["cat"]}')
            if t not in ('=', '*', '.'):
                keys.append([h, t])
        elif kind in ('kern-nonstruct', 'free', 'blank'):
            if structural and kind == 'free':
                raise Bad('harness-free-text', f'free text {t!r} is structural for the kern importer: {ks}')
            if not verbatim_own:
                raise Bad('not-verbatim', f'{h}: cell {t!r} imports as {tsig(tok)}; expected the verbatim text under category {sorted(own(h))}', t=t, head=h)
            seen_own.add(tok.category.name)
            if any(ch.isascii() and (ch.isalnum() or ch in '#-.;()[]') for ch in t):
                keys.append([h, t])
        else:
            if structural:
                if tsig(tok) != ks:
                    raise Bad('arbitrary-structural', f'{h}: {t!r} imports as {tsig(tok)}; the kern importer recognises structure {ks}', t=t)
            else:
                if not verbatim_own:
                    raise Bad('arbitrary-not-verbatim', f'{h}: {t!r} imports as {tsig(tok)}; expected verbatim text under {sorted(own(h))}', t=t)
                seen_own.add(tok.category.name)
    if len(seen_own) > 1:
        raise Bad('own-category-unstable', f'{h}: non-structural cells got different categories {sorted(seen_own)}')
    r = Result(nontrivial=bool(keys), classes=sorted(set(classes)), evals=len(case['toks']), sample={'header': h, 'tokens': [x['t'] for x in case['toks']][:6]})
    r.keys = keys
    return r


# ---- documents under two headers ---------------------------------------------------------------------------------------
@st.composite
def doc_cases(draw):
    nokern = draw(st.integers(0, 2)) == 0  # a whole document without any **kern spine
    P = D.profile('full', types=['**text'] if nokern else ['**kern', '**text'], min_spines=1 if nokern else 2, max_spines=3,
                  kern_weight=0, splits=True, max_body=10, force_kern=not nokern)
    doc = draw(D.documents(P))
    h1, h2 = draw(st.lists(st.sampled_from(HEADS), min_size=2, max_size=2, unique=True))
    return {'doc': doc, 'h1': h1, 'h2': h2}


@st.composite
def twin_cases(draw):
    """the same column twice, side by side, under two DIFFERENT non-kern spine types (plus sometimes a kern spine in
    front whose cells are drawn from the same words)"""
    P = D.profile('full', types=['**text'], min_spines=1, max_spines=1, splits=False, partial_term=False, force_kern=False, max_body=10)
    doc = draw(D.documents(P))
    h1, h2 = draw(st.lists(st.sampled_from(HEADS), min_size=2, max_size=2, unique=True))
    for row in doc['rows']:
        if 'c' in row:
            c = row['c'][0]
            row['c'] = [dict(c), dict(c)]
            if c['k'] == 'header':
                row['c'] = [G.header_cell(h1), G.header_cell(h2)]
    doc['types'] = [h1, h2]
    return {'twin': doc, 'h1': h1, 'h2': h2}


def check_twin(case):
    doc = case['twin']
    text = S.render(doc)
    kd = K.loads_clean(text, 'twin document')
    a = S.analyze(doc)
    n = 0
    for i in a.cell_rows:
        if i == a.header_row:
            continue
        for k, node in enumerate(kd.tree.stages[i + 1]):
            h = doc['types'][a.spines[i][k]]
            t = node.token
            cell = doc['rows'][i]['c'][k]
            n += 1
            if t.category.name in STRUCT:
                continue
            if not (t.encoding == cell['t'] and t.export() == cell['t'] and t.category.name in own(h)):
                raise Bad('twin-wrong-token', f'cell {cell["t"]!r} in the {h} column (col {k}) is imported as {tsig(t)}; the same text stands in the '
                                              f'{doc["types"][1 - k]} column beside it\n{text}')
    return Result(nontrivial=n > 4, classes=['twin-columns', 'pair=' + case['h1'] + '/' + case['h2']], sample=text, key=text, evals=n)


def rehead(doc, h):
    import copy
    d = copy.deepcopy(doc)
    idx = [i for i, t in enumerate(d['types']) if t == '**text']
    for row in d['rows']:
        if 'c' in row and row['c'] and row['c'][0]['k'] == 'header':
            for i in idx:
                row['c'][i] = G.header_cell(h)
    d['types'] = [h if t == '**text' else t for t in d['types']]
    return d, idx


def check_doc(case):
    doc = case['doc']
    if '**text' not in doc['types']:
        return Result(classes=['no-text-spine'])
    out = []
    for h in (case['h1'], case['h2']):
        d, idx = rehead(doc, h)
        text = S.render(d)
        kd = K.loads_clean(text, f'document under {h}')
        a = S.analyze(d)
        toks = []
        for i in a.cell_rows:
            for k, n in enumerate(kd.tree.stages[i + 1]):
                if a.spines[i][k] in idx and i != a.header_row:
                    t = n.token
                    cell = d['rows'][i]['c'][k]
                    if t.category.name in STRUCT:
                        toks.append([i, k, tsig(t)])
                    else:
                        if not (t.encoding == cell['t'] and t.export() == cell['t'] and t.category.name in own(h)):
                            raise Bad('doc-not-verbatim', f'under {h}: cell {cell["t"]!r} imported as {tsig(t)}')
                        toks.append([i, k, 'own'])
                    if cell['k'] == 'bar' and t.category.name != 'BARLINES':
                        raise Bad('doc-barline-missed', f'under {h}: barline {cell["t"]!r} imported as {tsig(t)}')
        bar_stages = [i + 1 for i in a.cell_rows if any(c['k'] == 'bar' for c in d['rows'][i]['c'])]
        missing = [st_ for st_ in bar_stages if st_ not in kd.measure_start_tree_stages]
        if missing:
            raise Bad('doc-barline-not-a-measure-start', f'under {h}: barline rows at stages {missing} are not in the measure index {list(kd.measure_start_tree_stages)}\n{text}')
        out.append((list(kd.measure_start_tree_stages), toks, text))
    if out[0][0] != out[1][0]:
        raise Bad('measure-index-differs', f'measure starts {out[0][0]} under {case["h1"]} but {out[1][0]} under {case["h2"]}\n{out[0][2]}')
    if out[0][1] != out[1][1]:
        diff = [(x, y) for x, y in zip(out[0][1], out[1][1]) if x != y][:3]
        raise Bad('structure-differs', f'structural tokens differ between {case["h1"]} and {case["h2"]}: {diff}\n{out[0][2]}')
    return Result(nontrivial=any(c['k'] == 'bar' for _, _, c in S.cells(doc)), classes=['documents', 'pair=' + case['h1'] + '/' + case['h2']],
                  sample=out[0][2], key=[out[0][2], case['h2']], evals=2)


PADS = [' ', '  ', '\x0c', '\u00a0', '\u2028', '\u3000', '\x0b', '\x85']
STRUCTS = ['=2', '==', '=:|!|:', '.', '*', '*clefG2', '*M3/4', '*k[b-]', '*met(c)', '*staff1', '*xywh-1:1,2,30,40']
SPACED_BBOXES = ['*xywh-page 3:10,20,300,40', '*xywh-f. 12v:1,2,3,4', '*xywh-IMG 0042.jpg:5,6,7,8', '*xywh- 7:1,1,2,2']


def fixed_cases():
    """enumerated rather than drawn (the random corpus meets them too rarely): shared structure behind / in front of every kind
    of white space, under every header; bounding boxes whose page name contains a blank are shared structure like the others"""
    for h in HEADS:
        toks = [{'t': p_ + s_, 'kind': 'arbitrary'} for p_ in PADS for s_ in STRUCTS] + [{'t': s_ + p_, 'kind': 'arbitrary'} for p_ in PADS[:4] for s_ in STRUCTS]
        for i in range(0, len(toks), 12):
            yield {'head': h, 'toks': toks[i:i + 12]}
        yield {'head': h, 'toks': [{'t': t, 'kind': 'struct', 'cat': 'BOUNDING_BOXES'} for t in SPACED_BBOXES]}


def run(ctx):
    n = 500 if ctx.quick else 5000
    ctx.check_all(fixed_cases(), check_tokens)
    ctx.run_hypothesis(token_cases(), check_tokens, max_examples=n, label='tokens')
    ctx.run_hypothesis(doc_cases(), check_doc, max_examples=max(60, n // 6), salt=1, label='documents')
    ctx.run_hypothesis(twin_cases(), check_twin, max_examples=max(60, n // 6), salt=2, label='twin-columns')


def replay(case):
    if 'twin' in case:
        return check_twin(case)
    return check_doc(case) if 'doc' in case else check_tokens(case)
