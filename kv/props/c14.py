"""C14 - the read-only API is pure and history-independent."""
import contextlib
import io
import os
import re
import tempfile

import copy

import kernpy as kp
from hypothesis import strategies as st
from hypothesis.stateful import RuleBasedStateMachine, initialize, rule

from .. import cats, docgen as D, kdoc as K, snapshot as SN, spine as S
from ..common import Bad, Result

ID = 'C14'
SHARDS_QUICK = 4
TC = kp.TokenCategory
RULE = ('Hypothesis RuleBasedStateMachine: @initialize draws a document (profile "full"; in half of the cases a '
        'measure-structured score) and imports it; up to 12 rules are then applied to the SAME Document object, drawn '
        'from: dumps with arbitrary options (spine ids/types, include/exclude as list/set/tuple - including the module '
        'constant BEKERN_CATEGORIES itself -, six encodings, legal and illegal measure ranges), Exporter.export_string '
        'with a caller-owned ExportOptions object AND one Exporter object reused across calls (followed by that '
        'Exporter\'s get_spine_types), get_all_tokens / get_unique_tokens / '
        'get_all_tokens_encodings / get_unique_token_encodings / frequencies with filters, get_metacomments (key, '
        'clear), spine_types, is_monophonic, list(doc), next(doc), zip(doc, doc), an abandoned iteration, measures_count, '
        'get_first_measure, get_spine_ids, '
        'get_header_nodes, get_voices, graph to a file and to stdout.  Invariants after every step: a deep snapshot of '
        'the document (every node, token field, sub-token, link by position, measure index, bounding boxes) is '
        'unchanged; module constants and the caller\'s own argument objects are unchanged; the result (value, or '
        'exception type and message) equals the result of the same call on a fresh import of the same text, and - for '
        'exports and queries - the result of the same call made once more immediately.  A failure that does not '
        'reproduce in the searching process is re-executed in a new interpreter before anything is reported.  In addition '
        'a few drawn call sequences are executed in two fresh interpreters, forwards and backwards, and every call must '
        'give the same result in both orders (interpreter-global state).  Excerpt sweeps: for measure-structured scores '
        'with signature changes, ALL (from, to) ranges of one imported document are exported in a drawn order and back, '
        'each compared with the same excerpt of a copy imported for that call alone (splits may stay open across '
        'barlines); caller-owned category sets / lists go through one Exporter once per encoding (unchanged afterwards, same text as a fresh dumps); then the text is imported 24 times in a row (padding imports in between, so that process-wide counters take every residue of small moduli) and every excerpt must be the same text for all copies.  '
        'Non-trivial: >=3 distinct operations of which at least one raised or used a filter.')
ASSUMPTIONS = ['state hidden outside Python attributes (ANTLR DFA caches) is only seen if it changes a result',
               'graph output is compared after canonical renaming of node<address> and #<node id> (process-global counters)']
ENCS = list(K.ENCODINGS)
REPEATABLE = ('dumps', 'tokens', 'unique', 'encodings', 'unique_encodings', 'frequencies', 'metacomments', 'spine_types', 'mono',
              'count', 'first', 'spine_ids')
NCOPIES = 24
CONSTS0 = SN.constants()  # taken once, when the process is still pristine


def cat_arg(names, shape):
    if names == 'BEKERN':
        return kp.BEKERN_CATEGORIES
    cs = [TC[n] for n in names]
    return cs if shape == 'list' else tuple(cs) if shape == 'tuple' else set(cs)


catlists = st.one_of(st.lists(st.sampled_from(cats.ALL), max_size=4, unique=True), st.just('BEKERN'),
                     st.just(['CORE']), st.just(['NOTE_REST', 'SIGNATURES']))


@st.composite
def ops(draw):
    name = draw(st.sampled_from(['dumps', 'dumps', 'dumps', 'dumps_variant', 'dumps_variant', 'dumps_variant', 'dumps_variant', 'dumps_variant',
                                 'dumps_variant', 'export_options', 'export_options', 'tokens', 'unique', 'encodings', 'unique_encodings',
                                 'frequencies', 'metacomments', 'metacomments', 'spine_types', 'mono', 'iter', 'count', 'first', 'spine_ids',
                                 'headers', 'voices', 'graph_file', 'graph_stdout', 'next', 'zip', 'iter_partial']))
    o = {'op': name, 'shape': draw(st.sampled_from(['list', 'set', 'tuple']))}
    if name in ('dumps', 'export_options'):
        if draw(st.booleans()):
            o['include'] = draw(catlists)
        if draw(st.booleans()):
            o['exclude'] = draw(catlists)
        if draw(st.booleans()):
            o['encoding'] = draw(st.sampled_from(ENCS))
        if draw(st.integers(0, 2)) == 0:
            o['spine_ids'] = draw(st.lists(st.integers(0, 4), max_size=3, unique=True))
        if draw(st.integers(0, 3)) == 0:
            o['spine_types'] = draw(st.lists(st.sampled_from(D.ALL_TYPES), max_size=3, unique=True))
        if draw(st.integers(0, 2)) == 0:
            o['from_measure'] = draw(st.integers(-1, 5))
        if draw(st.integers(0, 2)) == 0:
            o['to_measure'] = draw(st.integers(-1, 6))
        if name == 'export_options' and draw(st.integers(0, 2)) == 0:
            o['reset'] = True  # the caller sets the measure range of the reused options object back to None
    elif name == 'dumps_variant':
        # the previous dumps call of this history again, with ONE option changed (resolved when applied)
        o['change'] = draw(st.sampled_from(['spine_ids_empty', 'spine_ids_empty', 'spine_ids_empty', 'spine_ids_none', 'spine_ids_none', 'to_plus', 'to_plus',
                                            'to_minus', 'to_minus', 'to_none', 'from_one',
                                            'enc_other', 'drop_include', 'exclude_decoration', 'same']))
    elif name in ('tokens', 'unique', 'encodings', 'unique_encodings', 'frequencies'):
        if draw(st.booleans()):
            o['filter'] = draw(catlists)
    elif name == 'metacomments':
        # '@n' = the n-th reference-record key that actually occurs in the document (resolved when applied)
        o['key'] = draw(st.sampled_from([None, 'COM', 'OTL', 'ABSENT', '', '@0', '@0', '@1', '@2']))
        o['clear'] = draw(st.integers(0, 2)) > 0
    elif name == 'spine_types':
        o['headers'] = draw(st.one_of(st.none(), st.lists(st.sampled_from(D.ALL_TYPES), max_size=3, unique=True)))
    elif name == 'voices':
        o['clean'] = draw(st.booleans())
    return o


def canon_graph(s):
    ids = {}

    def nid(m):
        return 'node%d' % ids.setdefault(m.group(0), len(ids))
    s = re.sub(r'node\d+', nid, s)
    nums = sorted({int(x) for x in re.findall(r'#(\d+)', s)})
    rank = {n: i for i, n in enumerate(nums)}
    return re.sub(r'#(\d+)', lambda m: '#%d' % rank[int(m.group(1))], s)


def tsig(t):
    return [type(t).__name__, t.category.name, t.encoding, t.export()]


def build_args(o):
    """-> (kwargs, list of caller-owned mutable objects to watch)"""
    kw, watch = {}, []
    for k in ('include', 'exclude'):
        if k in o:
            kw[k] = cat_arg(o[k], o['shape'])
            watch.append(kw[k])
    if 'encoding' in o:
        kw['encoding'] = K.ENCODINGS[o['encoding']]
    for k in ('spine_ids', 'spine_types'):
        if k in o:
            kw[k] = list(o[k])
            watch.append(kw[k])
    for k in ('from_measure', 'to_measure'):
        if k in o:
            kw[k] = o[k]
    return kw, watch


def apply(doc, o, state):
    """execute one read-only operation; -> JSON-able result or ['EXC', type, message].  `state` carries caller-owned
    objects that live across calls (the reused ExportOptions)."""
    name = o['op']
    watch = []
    try:
        if name == 'dumps':
            kw, watch = build_args(o)
            before = [repr(sorted(w, key=repr)) if isinstance(w, (set, frozenset)) else repr(w) for w in watch]
            r = kp.dumps(doc, **kw)
            after = [repr(sorted(w, key=repr)) if isinstance(w, (set, frozenset)) else repr(w) for w in watch]
            if before != after:
                return ['ARG-MUTATED', before, after]
            return r
        if name == 'export_options':
            kw, watch = build_args(o)
            opts = state.get('options')
            if opts is None:
                opts = state['options'] = kp.ExportOptions()
            # the caller owns this object and reuses it
            if 'encoding' in kw:
                opts.kern_type = kw['encoding']
            if 'spine_ids' in kw:
                opts.spine_ids = kw['spine_ids']
            if 'from_measure' in kw:
                opts.from_measure = kw['from_measure']
            if 'to_measure' in kw:
                opts.to_measure = kw['to_measure']
            if 'include' in kw:
                sel = TC.valid(include=kw['include'], exclude=kw.get('exclude'))
                if o.get('reset') or o['shape'] == 'list':
                    # the caller keeps ONE list object for its categories and edits it in place
                    lst = state.setdefault('catlist', [])
                    lst[:] = sorted(sel, key=lambda c: c.name)
                    opts.token_categories = lst
                else:
                    opts.token_categories = sel
            elif o['shape'] == 'set':
                # no selection: the caller says "everything" with a set of its own (TokenCategory.all() returns one)
                opts.token_categories = set(TC.all())
            if o.get('reset'):
                if 'from_measure' not in kw:
                    opts.from_measure = None
                if 'to_measure' not in kw:
                    opts.to_measure = None
            # the Exporter object is reused as well (an Exporter is a service without memory)
            ex = state.get('exporter')
            if ex is None:
                ex = state['exporter'] = kp.Exporter()
            before = repr(sorted((k, sorted(v, key=repr) if isinstance(v, (set, frozenset)) else v) for k, v in vars(opts).items()))
            state['toggle'] = None
            try:
                r = ex.export_string(doc, opts)
                r2 = None
                if isinstance(opts.token_categories, list) and opts.token_categories is state.get('catlist'):
                    # ... edits its category list in place and exports again at once
                    lst = opts.token_categories
                    tg = TC.DECORATION if len(lst) % 2 else TC.DURATION
                    state['toggle'] = (list(lst), tg)
                    if tg in lst:
                        lst.remove(tg)
                    else:
                        lst.append(tg)
                    try:
                        r2 = ex.export_string(doc, opts)
                    finally:
                        lst[:] = state['toggle'][0]  # and puts it back
                r = [r, r2, ex.get_spine_types(doc), ex.get_spine_types(doc, ['**kern'])]
            finally:
                after = repr(sorted((k, sorted(v, key=repr) if isinstance(v, (set, frozenset)) else v) for k, v in vars(opts).items()))
                if before != after:
                    return ['OPTIONS-MUTATED', before, after]
            return r
        flt = None
        if 'filter' in o:
            flt = cat_arg(o['filter'], o['shape'])
            watch.append(flt)
        before = [repr(sorted(w, key=repr)) if isinstance(w, (set, frozenset)) else repr(w) for w in watch]
        if name == 'tokens':
            r = [tsig(t) for t in doc.get_all_tokens(filter_by_categories=flt)]
        elif name == 'unique':
            r = [tsig(t) for t in doc.get_unique_tokens(filter_by_categories=flt)]
        elif name == 'encodings':
            r = doc.get_all_tokens_encodings(filter_by_categories=flt)
        elif name == 'unique_encodings':
            r = doc.get_unique_token_encodings(filter_by_categories=flt)
        elif name == 'frequencies':
            r = doc.frequencies(flt)
        elif name == 'metacomments':
            key = o['key']
            if isinstance(key, str) and key.startswith('@'):
                keys = state.get('doc_keys') or [None]
                key = keys[int(key[1:]) % len(keys)]
            r = doc.get_metacomments(key, clear=o['clear'])
        elif name == 'spine_types':
            r = kp.spine_types(doc, o['headers'])
        elif name == 'mono':
            r = kp.is_monophonic(doc)
        elif name == 'iter':
            r = list(doc)
        elif name == 'next':
            r = next(doc)
        elif name == 'zip':
            r = [list(p) for p in zip(doc, doc)]
        elif name == 'iter_partial':
            it = iter(doc)
            r = [next(it, None), next(it, None)]  # an iteration that is abandoned half-way
        elif name == 'count':
            r = doc.measures_count()
        elif name == 'first':
            r = doc.get_first_measure()
        elif name == 'spine_ids':
            r = doc.get_spine_ids()
        elif name == 'headers':
            r = [[t.encoding, t.spine_id] for t in doc.get_header_nodes()]
        elif name == 'voices':
            r = [getattr(v, 'encoding', v) for v in doc.get_voices(clean=o['clean'])]
        elif name == 'graph_file':
            with tempfile.TemporaryDirectory(prefix='kv_c14_') as td:
                p = os.path.join(td, 'g.dot')
                kp.graph(doc, p)
                with open(p, encoding='utf-8') as f:
                    r = canon_graph(f.read())
        elif name == 'graph_stdout':
            buf = io.StringIO()
            with contextlib.redirect_stdout(buf):
                kp.graph(doc, None)
            r = canon_graph(buf.getvalue())
        else:
            raise AssertionError(name)
        after = [repr(sorted(w, key=repr)) if isinstance(w, (set, frozenset)) else repr(w) for w in watch]
        if before != after:
            return ['ARG-MUTATED', before, after]
        return r
    except Exception as e:  # noqa
        return ['EXC', type(e).__name__, str(e)]


class Session:
    """one document under test + the reference values; used by the machine and by the plain replay"""

    def __init__(self, doc):
        self.text = S.render(doc)
        self.kdoc = K.loads_clean(self.text)
        self.snap0 = SN.snapshot(self.kdoc)
        other = K.loads_clean(self.text)
        d = SN.first_difference(self.snap0, SN.snapshot(other))
        if d:
            raise Bad('two-imports-differ', f'two imports of the same text differ: {d}\n{self.text}')
        self.consts0 = CONSTS0
        keys = []
        for row in doc['rows']:
            if 'g' in row and row['g'].startswith('!!!') and ':' in row['g']:
                k = row['g'][3:].split(':')[0]
                if k not in keys:
                    keys.append(k)
        self.doc_keys = keys
        self.state = {'doc_keys': keys}
        self.fresh_state = {}
        self.n = 0

    def resolve(self, o):
        if o['op'] != 'dumps_variant':
            if o['op'] == 'dumps':
                self.last_dumps = dict(o)
            return o
        r = dict(getattr(self, 'last_dumps', None) or {'op': 'dumps', 'shape': 'list', 'from_measure': 1})
        if r.get('from_measure', 0) < 1:
            r['from_measure'] = 1  # excerpts are where the exporter has most to remember
        base = dict(r)
        ch = o['change']
        if ch == 'spine_ids_empty':
            r['spine_ids'] = []
        elif ch == 'spine_ids_none':
            r.pop('spine_ids', None)
        elif ch == 'to_plus':
            r['to_measure'] = r.get('to_measure', 1) + 1
        elif ch == 'to_minus':
            r['to_measure'] = max(0, r.get('to_measure', 2) - 1)
        elif ch == 'to_none':
            r.pop('to_measure', None)
        elif ch == 'from_one':
            r['from_measure'] = 1
        elif ch == 'enc_other':
            r['encoding'] = 'ekern' if r.get('encoding') != 'ekern' else 'kern'
        elif ch == 'drop_include':
            r.pop('include', None)
        elif ch == 'exclude_decoration':
            r['exclude'] = ['DECORATION']
        r['op'] = 'dumps'
        base['op'] = 'dumps'
        self.last_dumps = dict(r)
        return [r, base]  # the changed call, then the unchanged one again

    def step(self, o):
        o = self.resolve(o)
        if isinstance(o, list):
            out = None
            for sub in o:
                out = self._step(sub)
            return out
        return self._step(o)

    def _step(self, o):
        self.n += 1
        got = apply(self.kdoc, o, self.state)
        if o['op'] in REPEATABLE:
            # the same call again, immediately: a call that leaves something behind (also when it raises) shows here
            again = apply(self.kdoc, o, self.state)
            if again != got:
                raise Bad('not-repeatable', f'step {self.n} {o}: the same call twice in a row gives two different results\n'
                                            f'--- first\n{str(got)[:600]}\n--- second\n{str(again)[:600]}\n{self.text}', op=o['op'])
        fresh_doc, _ = kp.loads(self.text)
        ref = apply(fresh_doc, o, {'doc_keys': self.doc_keys})  # a fresh document AND a fresh caller-side options object
        if isinstance(got, list) and got and got[0] in ('ARG-MUTATED', 'OPTIONS-MUTATED'):
            raise Bad('argument-mutated', f'step {self.n} {o}: the call changed an object owned by the caller: {got[1]} -> {got[2]}')
        if o['op'] == 'export_options':
            # the reused options object accumulates the caller's own settings; compare with a fresh document given
            # the SAME options object instead
            ref = None
        if ref is not None and got != ref:
            raise Bad('result-differs-from-fresh', f'step {self.n} {o}: result on the used document differs from a fresh import\n'
                                                   f'--- used\n{str(got)[:600]}\n--- fresh\n{str(ref)[:600]}\n{self.text}', op=o['op'])
        if o['op'] == 'export_options':
            opts = self.state['options']
            try:
                ex_ = kp.Exporter()
                opts_new = kp.ExportOptions()  # an equal options object built from scratch (new containers)
                for k_, v_ in vars(opts).items():
                    setattr(opts_new, k_, copy.copy(v_))
                ref2 = ex_.export_string(fresh_doc, opts_new)
                ref3 = None
                if self.state.get('toggle'):
                    lst0, tg = self.state['toggle']
                    opts_new.token_categories = [c_ for c_ in lst0 if c_ is not tg] if tg in lst0 else lst0 + [tg]
                    ref3 = kp.Exporter().export_string(fresh_doc, opts_new)
                ref2 = [ref2, ref3, kp.Exporter().get_spine_types(fresh_doc), kp.Exporter().get_spine_types(fresh_doc, ['**kern'])]
            except Exception as e:  # noqa
                ref2 = ['EXC', type(e).__name__, str(e)]
            if got != ref2:
                raise Bad('result-differs-from-fresh', f'step {self.n} {o}: export with the caller\'s options differs from a fresh import', op=o['op'])
        d = SN.first_difference(self.snap0, SN.snapshot(self.kdoc))
        if d:
            raise Bad('document-mutated', f'step {self.n} {o}: the document changed: {d}\n{self.text}', op=o['op'])
        c = SN.constants()
        if c != self.consts0:
            k = [k for k in c if c[k] != self.consts0[k]]
            raise Bad('constants-mutated', f'step {self.n} {o}: module constants changed: {k}: {self.consts0[k[0]]} -> {c[k[0]]}', op=o['op'])
        return got


class Tally:
    def __init__(self):
        self.raised = self.filtered = False
        self.names = set()

    def add(self, o, got):
        self.names.add(o['op'])
        if isinstance(got, list) and got and got[0] == 'EXC':
            self.raised = True
        if any(k in o for k in ('include', 'exclude', 'filter')):
            self.filtered = True

    def result(self, text, ops_):
        return Result(nontrivial=len(self.names) >= 3 and (self.raised or self.filtered),
                      classes=sorted('op=' + n for n in self.names) + (['raised'] if self.raised else []),
                      sample={'document': text, 'ops': ops_[:5]}, key=[text, ops_], evals=len(ops_))


def check_history(case):
    s = Session(case['doc'])
    t = Tally()
    for o in case['ops']:
        t.add(o, s.step(o))
    return t.result(s.text, case['ops'])


@st.composite
def start_docs(draw):
    from .. import grammar as G
    if draw(st.booleans()):
        doc = draw(D.measure_documents(D.mprofile(others=draw(st.booleans()), sig_changes=draw(st.booleans()))))
    else:
        doc = draw(D.documents(D.profile('full', hidden_bars=True)))
    for _ in range(draw(st.integers(0, 3))):  # reference records and other global comments anywhere
        doc['rows'].insert(draw(st.integers(0, len(doc['rows']))), {'g': draw(G.global_comments())})
    return doc


class ReadOnlyHistory(RuleBasedStateMachine):
    KV = None

    def __init__(self):
        super().__init__()
        self.session = None
        self.doc = None
        self.history = []
        self.tally = Tally()

    @initialize(doc=start_docs())
    def start(self, doc):
        self.doc = doc
        try:
            self.session = Session(doc)
        except Bad as b_:
            self.KV['fail']({'doc': doc, 'ops': []}, b_)
            raise AssertionError('init')

    @rule(o=ops())
    def call(self, o):
        if self.KV['stop']() or self.session is None:
            return
        self.history.append(o)
        try:
            self.tally.add(o, self.session.step(o))
        except Bad as b_:
            self.KV['fail']({'doc': self.doc, 'ops': list(self.history)}, b_)
            raise AssertionError('read-only violated')

    def teardown(self):
        if self.doc is not None and self.history:
            self.KV['count']({'doc': self.doc, 'ops': list(self.history)}, self.tally.result(self.session.text, list(self.history)))


# ---- order independence across fresh processes (state that is global to the interpreter) ---------------------------
def in_fresh_process(case):
    import json
    import subprocess
    import sys
    here = os.path.dirname(os.path.dirname(os.path.dirname(os.path.abspath(__file__))))
    p = subprocess.run([sys.executable, os.path.join(here, 'kv', 'worker14.py')], input=json.dumps(case), capture_output=True,
                       text=True, env=dict(os.environ, PYTHONHASHSEED='0'), timeout=300)
    if p.returncode != 0:
        raise RuntimeError('worker failed: ' + p.stderr[-2000:])
    return json.loads(p.stdout)


@st.composite
def order_cases(draw):
    doc = draw(start_docs())
    seq = draw(st.lists(ops().filter(lambda o: o['op'] not in ('export_options', 'dumps_variant')), min_size=3, max_size=8))
    return {'doc': doc, 'ops': seq}


def check_orders(case):
    """the same calls in a fresh interpreter, forwards and backwards: every call must give the same result in both
    orders (a process-wide cache keyed too coarsely makes the answer depend on which call came first)"""
    import json
    fwd = in_fresh_process(case)
    rev = in_fresh_process({'doc': case['doc'], 'ops': list(reversed(case['ops']))})
    rev = list(reversed(rev))
    for i, (o, a, b) in enumerate(zip(case['ops'], fwd, rev)):
        if a != b:
            raise Bad('order-dependent', f'call {o} gives different results depending on the calls made before it in the same '
                                         f'process:\n--- as call {i + 1} of {len(fwd)}\n{str(a)[:500]}\n--- in reversed order\n{str(b)[:500]}\n{S.render(case["doc"])}')
    names = {o['op'] for o in case['ops']}
    return Result(nontrivial=len(names) >= 2, classes=['fresh-process-orders'], sample={'ops': case['ops'][:4]},
                  key=['orders', S.render(case['doc']), case['ops']], evals=2 * len(case['ops']))


# ---- every excerpt of one document object, in a drawn order, against fresh imports ------------------------------------
@st.composite
def sweep_cases(draw):
    doc = draw(D.measure_documents(D.mprofile(others=draw(st.booleans()), sig_changes=True, max_measures=5, sig_after_bar=True, quiet_spines=True,
                                              rejoin_before_bar=draw(st.booleans()))))  # splits may stay open across barlines
    return {'doc': doc, 'perm': draw(st.permutations(list(range(21)))), 'enc': draw(st.sampled_from(['kern', 'ekern', 'bekern']))}


def check_sweep(case):
    """all (from, to) excerpts of ONE imported document, in a drawn order and then in the reverse order, must each
    equal the excerpt of a copy imported just for that call (an answer remembered from an earlier excerpt with another
    range is the typical way a read-only call changes a later one)"""
    text = S.render(case['doc'])
    kd = K.loads_clean(text)
    M = kd.measures_count()
    ranges = [(a, b) for a in range(1, M + 1) for b in range(a, M + 1)][:21]
    order = [ranges[i] for i in case['perm'] if i < len(ranges)]
    enc = K.ENCODINGS[case['enc']]
    fresh = {}
    for a, b in ranges:
        try:
            fresh[(a, b)] = kp.dumps(kp.loads(text)[0], from_measure=a, to_measure=b, encoding=enc)
        except Exception as e:  # noqa
            fresh[(a, b)] = ['EXC', type(e).__name__]
    n = 0
    for a, b in order + order[::-1]:
        try:
            got = kp.dumps(kd, from_measure=a, to_measure=b, encoding=enc)
        except Exception as e:  # noqa
            got = ['EXC', type(e).__name__]
        n += 1
        if got != fresh[(a, b)]:
            raise Bad('excerpt-depends-on-history', f'dumps(from_measure={a}, to_measure={b}, {case["enc"]}) as call {n} of the sweep '
                      f'{order + order[::-1]} differs from the same call on a freshly imported copy\n--- fresh\n{fresh[(a, b)]}\n--- in the sweep\n{got}\n{text}')
    # caller-owned category collections (a set, a list) handed to the Exporter once per encoding, in a drawn order: they come
    # back unchanged, and the extended export made with them afterwards is the one a fresh call gives
    for mk in (set, list):
        for cats_ in (TC.all(), TC.valid(include=[TC.CORE, TC.BARLINES, TC.SIGNATURES, TC.STRUCTURAL]),
                      TC.valid(include=kp.BEKERN_CATEGORIES)):  # (ExportOptions.token_categories holds the expanded selection)
            mine = mk(cats_)
            opts_ = kp.ExportOptions()
            opts_.token_categories = mine
            ex_ = kp.Exporter()
            held = sorted(c_.name for c_ in mine)
            for e_ in [ENCS[i % len(ENCS)] for i in case['perm'][:len(ENCS)]] + ['ekern']:
                opts_.kern_type = K.ENCODINGS[e_]
                try:
                    got_ = ex_.export_string(kd, opts_)
                except Exception as ex_c:  # noqa  (agnostic encodings need supported clefs everywhere)
                    got_ = ['EXC', type(ex_c).__name__]
                n += 1
                if sorted(c_.name for c_ in mine) != held or opts_.token_categories is not mine:
                    raise Bad('argument-mutated', f'Exporter.export_string({e_}) changed the category {mk.__name__} owned by the caller: {held} -> {sorted(c_.name for c_ in mine)}')
                try:
                    want_ = kp.dumps(kp.loads(text)[0], encoding=K.ENCODINGS[e_], include=list(cats_))
                except Exception as ex_c:  # noqa
                    want_ = ['EXC', type(ex_c).__name__]
                if got_ != want_:
                    raise Bad('result-differs-from-fresh', f'{e_} export with a caller-owned category {mk.__name__} that was used for other encodings before differs from a fresh dumps')
    # two imports of the same text are indistinguishable: NCOPIES imports in a row (each one moves every process-wide
    # counter on - node ids, object addresses), every excerpt 'from measure a to the end' must be the same text in all
    # (every second import is preceded by the import of a three-node padding score, so that the counters advance by N and
    # N + 3 in turn: whatever their value at the start, the copies meet every residue of small moduli - the outcome does
    # not depend on what the process did before, and a failure reproduces)
    copies = []
    for k in range(NCOPIES):
        if k % 2:
            kp.loads('**kern\n*-\n')
        copies.append(kp.loads(text)[0])
    for a in range(1, M + 1):
        outs = []
        for c in copies:
            try:
                outs.append(kp.dumps(c, from_measure=a, to_measure=M, encoding=enc))
            except Exception as e:  # noqa
                outs.append(['EXC', type(e).__name__])
        n += len(outs)
        j = next((j for j, o in enumerate(outs) if o != outs[0]), None)
        if j is not None:
            raise Bad('imports-distinguishable', f'dumps(from_measure={a}, to_measure={M}, {case["enc"]}) differs between the 1st and the {j + 1}th '
                      f'import of the same text in one process\n--- import 1\n{outs[0]}\n--- import {j + 1}\n{outs[j]}\n{text}')
    return Result(nontrivial=len(ranges) >= 6, classes=['excerpt-sweep', f'measures={M}'], sample={'document': text, 'order': order[:6]},
                  key=['sweep', text, order], evals=2 * len(order))


def run(ctx):
    ctx.run_hypothesis(sweep_cases(), check_sweep, max_examples=14 if ctx.quick else 320, salt=7, label='excerpt-sweeps')
    ctx.run_machine(ReadOnlyHistory, check_history, max_examples=20 if ctx.quick else 900, step_count=12, label='read-only')
    ctx.run_hypothesis(order_cases(), check_orders, max_examples=2 if ctx.quick else 60, salt=5, label='orders')


def replay(case):
    if 'perm' in case:
        return check_sweep(case)
    r = check_history(case)
    check_orders(case)
    return r
