"""C16 - pitch spelling codec is lossless and side-effect free.  Exhaustive grid."""
import kernpy as kp

from .. import pitch as M
from ..common import Bad, Result

ID = 'C16'
LEVEL = 'exploration'
SHARDS_THOROUGH = 1
RULE = ('Exhaustive enumeration of 7 letters x 7 alterations (-3..+3) x octaves -1..9 = 539 Humdrum spellings.  Each is '
        'imported (expected: letter, alteration and octave computed by the harness), exported, exported a second time '
        'from the same object, and the object is compared before/after; in the other direction an AgnosticPitch built '
        'directly from (name, octave) is exported twice and re-imported.  Importer and exporter objects are also '
        'reused across the whole grid (one shared instance) and compared with fresh instances; in two batch cases one '
        'importer imports the whole grid (forwards, backwards) before any result is inspected: every returned object must '
        'still hold its own pitch; in two history cases the importer is handed a string that is not a spelling before every '
        'spelling of the grid (the refusal is ignored, the next import must be right) and ONE AgnosticPitch object is '
        're-assigned to every pitch of the grid and exported.  Non-trivial = the '
        'spelling has an accidental or more than one letter.')
ASSUMPTIONS = ['kv/pitch.py spelling rule (c = octave 4, C = octave 3, one more letter per octave away) is the reference']


def name_of(l, alt):
    return M.LETTERS[l] + ('+' * alt if alt > 0 else '-' * -alt)


_shared = {}


def check_batch(case):
    """one importer imports the whole grid first; every pitch object it handed out must still be the pitch it was when
    it was returned (the importer must not keep working on an object it has given away), and export as its spelling"""
    imp, exp = kp.HumdrumPitchImporter(), kp.HumdrumPitchExporter()
    cells = list(grid())
    if case.get('reverse'):
        cells.reverse()
    got = [(c, imp.import_pitch(M.spell(c['l'], c['alt'], c['o']))) for c in cells]
    for c, p in got:
        s, expn = M.spell(c['l'], c['alt'], c['o']), name_of(c['l'], c['alt'])
        if (p.name, p.octave) != (expn, c['o']):
            raise Bad('import-result-changed-later', f'the pitch returned by import_pitch({s!r}) reads ({p.name!r},{p.octave}) after the same '
                                                     f'importer imported other spellings; expected ({expn!r},{c["o"]})')
        if exp.export_pitch(p) != s:
            raise Bad('export-after-batch', f'export of the pitch imported from {s!r} gives {exp.export_pitch(p)!r}')
    if len({id(p) for _, p in got}) != len(got):
        raise Bad('import-shares-objects', 'one importer returned the same object for different imports')
    return Result(nontrivial=True, classes=['batch'], sample={'batch': len(got)}, evals=len(got))


JUNK = ['', '#', '--', '##', 'x', 'h#', '4', ' ', 'r', 'c####', '-c-', 'ñ']


def check_history(case):
    """(a) one importer / exporter pair with a past: before every spelling of the grid the importer is handed a string
    that is not a spelling (empty, accidentals only, unknown letter ... - whatever it answers or raises is ignored); the
    spelling that follows must still be imported right.  (b) ONE AgnosticPitch object is re-assigned (name, octave - in
    both orders) to every pitch of the grid and exported twice: the export is the spelling of what the object holds now."""
    imp, exp = kp.HumdrumPitchImporter(), kp.HumdrumPitchExporter()
    obj = kp.AgnosticPitch('C', 4)
    cells = list(grid())
    if case.get('reverse'):
        cells.reverse()
    n = 0
    for i, c in enumerate(cells):
        s, expn = M.spell(c['l'], c['alt'], c['o']), name_of(c['l'], c['alt'])
        junk = JUNK[(i + (3 if case.get('reverse') else 0)) % len(JUNK)]
        try:
            imp.import_pitch(junk)
        except Exception:  # noqa - not a spelling: any refusal is fine
            pass
        p = imp.import_pitch(s)
        n += 1
        if (p.name, p.octave) != (expn, c['o']):
            raise Bad('import-after-refused-input', f'import_pitch({s!r}) = ({p.name!r},{p.octave}) on an importer that was handed {junk!r} just before; '
                                                    f'expected ({expn!r},{c["o"]})')
        if exp.export_pitch(p) != s:
            raise Bad('export-after-refused-input', f'{s!r} imported after {junk!r} exports as {exp.export_pitch(p)!r}')
        if i % 2:
            obj.name = expn
            obj.octave = c['o']
        else:
            obj.octave = c['o']
            obj.name = expn
        e1, e2 = exp.export_pitch(obj), kp.HumdrumPitchExporter().export_pitch(obj)
        if e1 != s or e2 != s or (obj.name, obj.octave) != (expn, c['o']):
            raise Bad('export-of-reassigned-object', f'one AgnosticPitch object re-assigned to ({expn!r},{c["o"]}) exports as {e1!r} / {e2!r}, expected {s!r}; '
                                                     f'object now ({obj.name!r},{obj.octave})')
        r = imp.import_pitch(e1)
        if not (r == obj) or (r.name, r.octave) != (expn, c['o']):
            raise Bad('reimport-of-reassigned-object', f'{e1!r} re-imports as ({r.name!r},{r.octave})')
    return Result(nontrivial=True, classes=['history'], sample={'history': n, 'refused inputs': JUNK}, evals=2 * n)


def check(case):
    if case.get('batch'):
        return check_batch(case)
    if case.get('history'):
        return check_history(case)
    l, alt, o = case['l'], case['alt'], case['o']
    s = M.spell(l, alt, o)
    expn = name_of(l, alt)
    for mode in ('fresh', 'shared'):
        if mode == 'fresh':
            imp, exp = kp.HumdrumPitchImporter(), kp.HumdrumPitchExporter()
        else:
            imp = _shared.setdefault('imp', kp.HumdrumPitchImporter())
            exp = _shared.setdefault('exp', kp.HumdrumPitchExporter())
        p = imp.import_pitch(s)
        if (p.name, p.octave) != (expn, o):
            raise Bad('import', f'[{mode}] import_pitch({s!r}) = ({p.name!r},{p.octave}), expected ({expn!r},{o})')
        e1 = exp.export_pitch(p)
        if e1 != s:
            raise Bad('export', f'[{mode}] export_pitch(import_pitch({s!r})) = {e1!r}')
        if (p.name, p.octave) != (expn, o):
            raise Bad('export-mutates', f'[{mode}] export_pitch changed its argument from ({expn!r},{o}) to ({p.name!r},{p.octave})')
        e2 = exp.export_pitch(p)
        if e2 != e1:
            raise Bad('export-twice', f'[{mode}] second export of the same object gave {e2!r}, first {e1!r}')
        # the other direction: object built by hand
        q = kp.AgnosticPitch(expn, o)
        f1 = exp.export_pitch(q)
        f2 = exp.export_pitch(q)
        if f1 != s or f2 != s or (q.name, q.octave) != (expn, o):
            raise Bad('export-direct', f'[{mode}] export_pitch(AgnosticPitch({expn!r},{o})) = {f1!r} then {f2!r}; object now ({q.name!r},{q.octave})')
        r = imp.import_pitch(f1)
        if (r.name, r.octave) != (expn, o):
            raise Bad('reimport', f'[{mode}] import_pitch({f1!r}) = ({r.name!r},{r.octave})')
        if not (r == p and p == q):
            raise Bad('equality', f'[{mode}] pitches with equal name/octave compare unequal')
    return Result(nontrivial=(alt != 0 or len(M.kern_letters(l, o)) > 1), classes=[f'alt={alt}'],
                  sample={'spelling': s, 'name': expn, 'octave': o})


def grid():
    for l in range(7):
        for alt in range(-3, 4):
            for o in range(-1, 10):
                yield {'l': l, 'alt': alt, 'o': o}


def run(ctx):
    _shared.clear()
    ctx.check_all(grid(), check)
    ctx.check_all([{'batch': True}, {'batch': True, 'reverse': True}, {'history': True}, {'history': True, 'reverse': True}], check)
    ctx.rec.exhaustive = True
    ctx.rec.notes['grid'] = '7x7x11'


def replay(case):
    return check(case)
