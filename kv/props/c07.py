"""C07 - measure ranges partition the score."""
import kernpy as kp
from hypothesis import strategies as st

from .. import docgen as D, grammar as G, kdoc as K, measures as MS, spine as S
from ..common import Bad, Result

ID = 'C07'
RULE = ('Hypothesis **kern scores organised in measures (kv/docgen.py measure_documents: 1-3 kern spines, preamble of '
        'signatures, optional pick-up, 1-6 measures opened by any barline type with 0-3 events each - data rows with '
        'notes/rests/chords/nulls, re-joined splits, field comments, tandem interpretations - optional final barline), '
        'in half of the cases with **text/**dynam/**harm spines added and exported with spine_types=["**kern"]; for '
        'EVERY pair 1 <= a <= b <= M plus the illegal shapes (-1, b), (a, M+1), (M+2, M+1)..., (a, a-1).  Oracle: measure '
        'boundaries from the barline rows (+ pick-up) of the abstract document; the non-interpretation lines of the '
        'excerpt must be exactly the lines of the full export that belong to measures a..b plus the closing barline, '
        'unmodified and in order; lines before them are interpretations only; list(doc) == [1..M]; the single-measure '
        'exports partition the data lines of the full export; interleaved and nested iterations are independent; the '
        'illegal shapes raise ValueError; a quarter of the scores carry global comment lines, and in a third of the cases the document has '
        'been asked for its spine types and exported under a narrow category filter before the ranges are taken (also for scores without any measure, M = 0: header, interpretations, terminator).  A second profile keeps splits open across barlines.  An evaluation is '
        'one (document, a, b); non-trivial when M >= 3 and 1 < a and b < M, or the score has a pick-up, or no final '
        'barline.')
ASSUMPTIONS = ['measure numbering: barline rows open measures; a pick-up before the first barline is measure 1.  kernpy also '
               'counts a stretch that only holds null interpretations before the first barline as an (empty) measure 1; '
               'the property is checked under that numbering as well (class "phantom-measure"), see DESIGN.md C07',
               'a "data line" is any line that is not an interpretation line (first cell starts with "*")']


@st.composite
def cases(draw, across=False):
    others = draw(st.booleans())
    doc = draw(D.measure_documents(D.mprofile(others=others, rejoin_before_bar=not across, partial_term=draw(st.integers(0, 2)) == 0)))
    if others and draw(st.integers(0, 2)) == 0:
        # a quotation that opens in one lyric / label cell and closes in a later one (cell text is literal: a double
        # quote at the start of a cell must not be read as the start of a quoted field by the line reader)
        tc = [(i, k) for i, k, c in S.cells(doc) if c['k'] == 'text']
        if len(tc) >= 2:
            (i1, k1), (i2, k2) = tc[0], tc[-1]
            doc['rows'][i1]['c'][k1] = dict(doc['rows'][i1]['c'][k1], t='"Ich', e='"Ich')
            doc['rows'][i2]['c'][k2] = dict(doc['rows'][i2]['c'][k2], t='Gott"', e='Gott"')
    if draw(st.integers(0, 3)) == 0:
        doc = draw(D.with_global_comments(doc))  # '!!' lines between the rows, half of them directly after a barline
    # in a third of the cases the document has already been asked for its spine types / exported under a narrow category
    # filter when the ranges are taken (a read-only call made earlier must not change them)
    return {'doc': doc, 'file': draw(st.booleans()), 'asked_before': draw(st.integers(0, 2)) == 0}  # imported with kernpy.load from a file in half of the cases


def check(case):
    doc = case['doc']
    text = S.render(doc)
    kdoc = K.loads_clean(text, via_file=bool(case.get('file')))
    a_ = S.analyze(doc)
    mixed = any(t != '**kern' for t in doc['types'])
    kw = {'spine_types': ['**kern']} if mixed else {}
    if case.get('asked_before'):
        kp.spine_types(kdoc)
        kp.dumps(kdoc, include=[kp.TokenCategory.BARLINES, kp.TokenCategory.SIGNATURES])
        kp.is_monophonic(kdoc)
    B, label = MS.choose_numbering(doc, kdoc)
    M = len(B)
    if list(kdoc) != list(range(1, M + 1)):
        raise Bad('iteration', f'list(doc) = {list(kdoc)}, M = {M}')
    # iterations are independent of one another: interleaved and nested
    i1, i2 = iter(kdoc), iter(kdoc)
    inter = []
    for _ in range(M):
        inter.append((next(i1, None), next(i2, None)))
    if inter != [(k, k) for k in range(1, M + 1)] or next(i1, None) is not None:
        raise Bad('iteration-shared', f'two iterators over the same document consumed side by side give {inter}')
    nested = [(x, y) for x in kdoc for y in kdoc]
    if nested != [(x, y) for x in range(1, M + 1) for y in range(1, M + 1)]:
        raise Bad('iteration-nested', f'nested iteration over the document gives {nested[:6]}... ({len(nested)} pairs, M={M})')
    if list(kdoc) != list(range(1, M + 1)):
        raise Bad('iteration-repeat', 'second full iteration differs')
    if kdoc.get_first_measure() != 1:
        raise Bad('first-measure', f'{kdoc.get_first_measure()}')
    full = MS.aligned_full(doc, kdoc, a_, {'**kern'} if mixed else None, **kw)
    nrows = len(doc['rows'])
    evals = 0
    keys = []
    singles = []
    for a in range(1, M + 1):
        for b in range(a, M + 1):
            got_text = K.dumps(kdoc, what=f'from_measure={a},to_measure={b}', from_measure=a, to_measure=b, **kw)
            evals += 1
            got = K.grid(got_text)
            lo, hi = MS.range_rows(B, a, b, nrows)
            exp_lines = ['\t'.join(cells) for ri, cells in full if lo <= ri <= hi and not MS.is_interp_line(cells)]
            got_lines = ['\t'.join(cells) for cells in got if not MS.is_interp_line(cells)]
            if got_lines != exp_lines:
                raise Bad('range-lines', f'from_measure={a} to_measure={b} (M={M}, {label}): data lines {got_lines}, expected {exp_lines}\n--- source\n{text}--- excerpt\n{got_text}',
                          a=a, b=b, M=M)
            if got and not got[0][0].startswith('**'):
                raise Bad('no-header', f'excerpt {a}..{b} does not start with the header line\n{got_text}')
            if a == b and (a + M) % 2 == 0:
                # single measures also through kernpy.dump onto a file that already holds something else
                if K.via_dump_file(kdoc, expect=got_text, from_measure=a, to_measure=b, **kw) != got_text:
                    raise Bad('dump-file', f'kernpy.dump(from_measure={a}, to_measure={b}) writes a different text than dumps returns')
            if b == M or (a + b) % 3 == 0:
                # the same range through a caller-owned ExportOptions object: same text, and the object is not rewritten
                okw = dict(kw)
                opts = kp.ExportOptions(from_measure=a, to_measure=b, **okw)
                before = repr(sorted((k_, sorted(v_, key=repr) if isinstance(v_, (set, list)) else v_) for k_, v_ in vars(opts).items()))
                via = kp.Exporter().export_string(kdoc, opts)
                after = repr(sorted((k_, sorted(v_, key=repr) if isinstance(v_, (set, list)) else v_) for k_, v_ in vars(opts).items()))
                if via != got_text:
                    raise Bad('options-object-differs', f'Exporter.export_string(ExportOptions(from_measure={a}, to_measure={b})) differs from dumps')
                if before != after:
                    raise Bad('options-mutated', f'exporting measures {a}..{b} (M={M}) rewrote the caller\'s ExportOptions: {before} -> {after}')
            if a == b:
                singles.append([l for l in got_lines if not l.startswith('=')])
            if (M >= 3 and a > 1 and b < M) or doc.get('pickup') or not doc.get('final_barline'):
                keys.append([text, a, b])
    all_data = ['\t'.join(cells) for ri, cells in full if ri >= B[0] and not MS.is_interp_line(cells) and not cells[0].startswith('=')]
    flat = [l for s in singles for l in s]
    if flat != all_data:
        raise Bad('partition', f'single-measure exports give {flat}, the full export has {all_data}\n{text}')
    # whole range equals the full export from the first measure on
    for bad_kw, why in (({'from_measure': -1}, 'negative start'), ({'from_measure': -1, 'to_measure': M}, 'negative start'),
                        ({'to_measure': M + 1}, 'end beyond M'), ({'from_measure': 1, 'to_measure': M + 1}, 'end beyond M'),
                        ({'from_measure': M, 'to_measure': M + 3}, 'end beyond M')) + \
            tuple(({'from_measure': x, 'to_measure': x - 1}, 'end before start') for x in range(1, M + 1)) + \
            (({'from_measure': M, 'to_measure': 0}, 'end before start'), ({'from_measure': 1, 'to_measure': -1}, 'end before start'),
             ({'from_measure': M + 1, 'to_measure': M + 1}, 'end beyond M'), ({'from_measure': M + 1, 'to_measure': M + 2}, 'end beyond M'),
             ({'from_measure': M + 2, 'to_measure': M + 1}, 'end beyond M'), ({'from_measure': M + 1, 'to_measure': M}, 'end before start'),
             ({'from_measure': M + 3, 'to_measure': M + 5}, 'end beyond M')):
        evals += 1
        try:
            r = kp.dumps(kdoc, **bad_kw, **kw)
        except ValueError:
            continue
        except Exception as e:  # noqa
            raise Bad('wrong-exception', f'{bad_kw} ({why}) raised {type(e).__name__}: {e}, expected ValueError')
        raise Bad('not-rejected', f'{bad_kw} ({why}, M={M}) was accepted and returned {r[:80]!r}')
    r = Result(nontrivial=bool(keys), evals=evals,
               classes=K.doc_classes(doc, a_) + [label, f'M={min(M, 6)}{"+" if M > 6 else ""}'] + (['pickup'] if doc.get('pickup') else []) +
               (['no-final-barline'] if not doc.get('final_barline') else []) + (['projected-to-kern'] if mixed else []),
               sample=text)
    r.keys = keys
    return r


@st.composite
def measureless_cases(draw):
    """well-formed scores WITHOUT any measure: header, 0-3 signature / tandem rows (every cell an interpretation, no null
    token, so that neither numbering sees a measure), optional field comments, terminator"""
    nk = draw(st.integers(1, 3))
    types = ['**kern'] * nk
    rows = [D._row([G.header_cell(t) for t in types])]
    for kind in draw(st.lists(st.sampled_from(['clef', 'key', 'time', 'meter', 'tandem', 'comment']), max_size=3)):
        if kind == 'comment':
            rows.append(D._row([draw(G.field_comments()) for _ in types]))
        elif kind == 'tandem':
            t = draw(st.sampled_from(['*MM120', '*staff1', '*Ipiano']))
            rows.append(D._row([{'k': 'interp', 't': t, 'e': t, 'cat': None} for _ in types]))
        else:
            strat = {'clef': G.clefs(supported_only=True), 'key': G.keysigs(), 'time': G.timesigs(), 'meter': G.meters()}[kind]
            rows.append(D._row([draw(strat) for _ in types]))
    rows.append(D._row([G.op_cell('*-') for _ in types]))
    return {'doc': {'types': types, 'rows': rows, 'profile': 'measureless'}, 'file': draw(st.booleans()),
            'ends': draw(st.lists(st.integers(1, 9), min_size=2, max_size=4))}


def check_measureless(case):
    """M = 0: every end >= 1 lies beyond M, a negative start is negative all the same: ValueError, never another exception
    and never a clamped export; the un-ranged export is still the whole text"""
    doc = case['doc']
    text = S.render(doc)
    kdoc = K.loads_clean(text, via_file=bool(case.get('file')))
    if MS.boundaries(doc, True):
        raise Bad('generator', 'measure-less document has a measure in the model')
    if len(kdoc.measure_start_tree_stages) != 0:
        raise Bad('measure-count', f'a score without barline and without data has {len(kdoc.measure_start_tree_stages)} measure starts\n{text}')
    full = K.dumps(kdoc)
    evals = 1
    shapes = [({'from_measure': -1}, 'negative start'), ({'from_measure': -2, 'to_measure': 0}, 'negative start')]
    for e in case['ends']:
        shapes += [({'to_measure': e}, 'end beyond M'), ({'from_measure': 1, 'to_measure': e}, 'end beyond M'),
                   ({'from_measure': 0, 'to_measure': e}, 'end beyond M'), ({'from_measure': e + 1, 'to_measure': e}, 'end beyond M / before start')]
    for bad_kw, why in shapes:
        evals += 1
        try:
            r = kp.dumps(kdoc, **bad_kw)
        except ValueError:
            continue
        except Exception as e:  # noqa
            raise Bad('wrong-exception', f'{bad_kw} ({why}, M=0) raised {type(e).__name__}: {e}, expected ValueError\n{text}')
        raise Bad('not-rejected', f'{bad_kw} ({why}, M=0) was accepted and returned {r[:80]!r}')
    if K.dumps(kdoc) != full:
        raise Bad('not-repeatable', 'the un-ranged export changed after rejected ranges')
    return Result(nontrivial=len(doc['rows']) > 2, evals=evals, classes=['measureless', f'{len(doc["types"])} spines'], sample=text)


def check_real(case):
    """a sample score of the repository: its single-measure excerpts partition the data lines of the whole export, ranges give
    the lines between their barlines, iteration yields 1..M, illegal shapes are rejected (**kern spines by type or by id)"""
    from .. import realscores as RS
    try:
        kdoc, errs = kp.load(RS.path(case['real']))
    except Exception:  # noqa
        return Result(classes=['real-score-not-importable'])
    if errs:
        return Result(classes=['real-score-with-import-errors'])
    types = kp.spine_types(kdoc)
    if '**kern' not in types:
        return Result(classes=['real-score-without-kern'])
    kw = {'spine_types': ['**kern']}
    if case.get('by_ids'):
        kw = {'spine_ids': [k for k, t in enumerate(types) if t == '**kern']}
    full_text = K.dumps(kdoc, **kw)
    lines = [l for l in full_text.split('\n') if l]
    B = RS.measure_lines(lines)
    M = len(kdoc.measure_start_tree_stages)
    if len(B) != M or M == 0 or M > 60:
        return Result(classes=['real-score-numbering-not-text-level' if M <= 60 else 'real-score-too-long-for-quick'])
    if list(kdoc) != list(range(1, M + 1)) or kdoc.measures_count() != M:
        raise Bad('iteration', f'{case["real"]}: list(doc) = {list(kdoc)[:5]}..., measures_count() = {kdoc.measures_count()}, M = {M}')

    def data(ls):
        return [l for l in ls if l[0] not in '*=' and not l.startswith('!!')]
    evals = 0
    singles = []
    for a in range(1, M + 1):
        ex = K.dumps(kdoc, what=f'{case["real"]}: from_measure={a},to_measure={a}', from_measure=a, to_measure=a, **kw)
        evals += 1
        got = data([l for l in ex.split('\n') if l])
        exp = data(lines[B[a - 1]:(B[a] if a < M else len(lines))])
        if got != exp:
            raise Bad('range-lines', f'{case["real"]} ({K._kwrepr(kw)}): measure {a} of {M} exports the data lines {got[:4]}..., the whole export has {exp[:4]}... there')
        singles += got
    if singles != data(lines[B[0]:]):
        raise Bad('partition', f'{case["real"]}: the single-measure exports do not partition the data lines of the whole export')
    for a, b in RS.ranges(case, M):
        ex = K.dumps(kdoc, from_measure=a, to_measure=b, **kw)
        evals += 1
        got = data([l for l in ex.split('\n') if l])
        exp = data(lines[B[a - 1]:(B[b] if b < M else len(lines))])
        if got != exp:
            raise Bad('range-lines', f'{case["real"]} ({K._kwrepr(kw)}): range {a}..{b} of {M} exports {len(got)} data lines, the whole export has {len(exp)} there')
    for bad_kw in ({'from_measure': -1}, {'to_measure': M + 1}, {'from_measure': 2, 'to_measure': 1}, {'from_measure': M + 1, 'to_measure': M + 1}):
        evals += 1
        try:
            kp.dumps(kdoc, **bad_kw, **kw)
        except ValueError:
            continue
        except Exception as e:  # noqa
            raise Bad('wrong-exception', f'{case["real"]}: {bad_kw} raised {type(e).__name__}: {e}, expected ValueError')
        raise Bad('not-rejected', f'{case["real"]}: {bad_kw} (M={M}) was accepted')
    return Result(nontrivial=M >= 3, evals=evals, classes=['real-score', f'M={min(M, 6)}{"+" if M > 6 else ""}'], sample={'file': case['real'], 'M': M},
                  key=['real', case['real'], case.get('by_ids'), case['raw']])


def run(ctx):
    from .. import realscores as RS
    rc = RS.cases(max_bytes=20000, nranges=5)
    if rc is not None:
        ctx.run_hypothesis(rc, check_real, max_examples=max(3, (24 if ctx.quick else 400) // ctx.nshards), salt=9, label='real-scores')
    n = 150 if ctx.quick else 1200
    ctx.run_hypothesis(measureless_cases(), check_measureless, max_examples=20 if ctx.quick else 200, salt=2, label='measureless')
    ctx.run_hypothesis(cases(), check, max_examples=n, label='measures')
    # splits that stay open across barlines (barline rows wider than the header row)
    ctx.run_hypothesis(cases(across=True), check, max_examples=max(50, n // 3), salt=1, label='split-across-barlines')


def replay(case):
    if 'real' in case:
        return check_real(case)
    if case['doc'].get('profile') == 'measureless':
        return check_measureless(case)
    return check(case)
