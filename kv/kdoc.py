"""Helpers shared by the document-level properties: calling kernpy, grids, expected grids, output lexers, labels."""
import collections
import re

import kernpy as kp

from . import spine as S
from .common import Bad

E = kp.Encoding
ENCODINGS = {'kern': E.normalizedKern, 'ekern': E.eKern, 'bkern': E.bKern, 'bekern': E.bEkern,
             'akern': E.agnosticKern, 'aekern': E.agnosticExtendedKern}
PREFIX = {'kern': '', 'ekern': 'e', 'bkern': 'b', 'bekern': 'be', 'akern': 'a', 'aekern': 'ae'}
NULLS = ('.', '*')
TC = kp.TokenCategory


def loads_clean(text, what='document', via_file=False):
    """import a generated document that is well-formed by construction: it must not raise and must have no errors.
    via_file: write the text to a temporary file and use kernpy.load (the property holds for both entry points)"""
    try:
        if via_file:
            import os
            import tempfile
            with tempfile.TemporaryDirectory(prefix='kv_load_') as d_:
                path = os.path.join(d_, 'in.krn')
                with open(path, 'w', encoding='utf-8', newline='') as f:
                    f.write(text)
                doc, errs = kp.load(path)
        else:
            doc, errs = kp.loads(text)
    except Exception as e:  # noqa
        raise Bad('import-raised', f'{"load (file)" if via_file else "loads"} of a well-formed {what} raised {type(e).__name__}: {e}\n{text}')
    if errs:
        raise Bad('import-errors', f'well-formed {what} imported with errors {[(x.line, x.encoding) for x in errs]}\n{text}')
    return doc


def dumps(doc, what='dumps', **kw):
    try:
        text = kp.dumps(doc, **kw)
    except Exception as e:  # noqa
        raise Bad('export-raised', f'{what}({_kwrepr(kw)}) raised {type(e).__name__}: {e}', exc=type(e).__name__)
    check_shape(text, f'{what}({_kwrepr(kw)})')
    return text


def check_shape(text, what='export'):
    """an export is a sequence of non-empty lines, each closed by one line feed; when every line was dropped
    (all placeholders) nothing is left - not an empty line"""
    if text != '' and (not text.endswith('\n') or text.startswith('\n') or '\n\n' in text):
        raise Bad('text-shape', f'{what} returned {text!r}: an export is a sequence of non-empty lines each closed by a line feed '
                  f'(dropped lines leave nothing behind)')


def _kwrepr(kw):
    out = []
    for k, v in kw.items():
        if isinstance(v, (set, list, tuple, frozenset)):
            v = sorted(getattr(x, 'name', x) for x in v) if all(hasattr(x, 'name') or isinstance(x, (str, int)) for x in v) else v
        out.append(f'{k}={getattr(v, "name", v)!r}')
    return ', '.join(out)


def grid(s):
    return [line.split('\t') for line in s.split('\n') if line != '']


def expected_rows(doc):
    """[(row index, cells)] of the abstract rows that the default export must contain: no global comments, no rows
    whose cells are all null"""
    out = []
    for i, row in enumerate(doc['rows']):
        if 'c' not in row:
            continue
        if all(c['k'] in ('null', 'nullinterp') or c.get('hidden') for c in row['c']):
            continue  # all null (invisible barlines are exported as placeholders by design)
        out.append((i, row['c']))
    return out


# ---- lexical atoms of an exported note (independent of kernpy) -------------------------------------------------------
_ATOM = re.compile(r'&+[()]|Ww|xx|yy|\?\?|\[y|\(<|L>|\d+(?:%\d+)?|[a-gA-G]+|(?:[#\-]+|n)(?:yy|YY|[xXiIjZyY])?|r|.', re.S)


def atoms(text):
    return collections.Counter(_ATOM.findall(text))


def expected_atoms(n, with_sigs=True):
    a = collections.Counter()
    for x in n['dur']:
        if x in ('qq',):
            a['q'] += 2
        else:
            a[x] += 1
    a[n['p']] += 1
    if n['acc']:
        a[n['acc']] += 1
    if n.get('pos'):
        a[n['pos']] += 1  # explicit vertical position of a rest
    if with_sigs:
        for s in set(n['sigs']):
            a[s] += 1
    return a


# ---- ekern cell splitter -------------------------------------------------------------------------------------------
def lexcat(part):
    """category of a pitch/duration sub-part of an ekern note, by lexical shape"""
    if re.fullmatch(r'\d+(%\d+)?|\.|q|qq|p|P', part):
        return 'DURATION'
    if part == 'r':
        return 'REST'
    if re.fullmatch(r'[a-gA-G]+', part):
        return 'PITCH'
    return 'ALTERATION'


def split_member(m):
    """ekern chord member / note -> (pitch-duration parts, decoration parts)"""
    pd, _, dec = m.partition('·')
    return [p for p in pd.split('@') if p], [x for x in dec.split('·') if x] if dec else []


def join_member(pds, decs):
    s = '@'.join(pds)
    if decs:
        s += '·' + '·'.join(decs)
    return s


def strip_sep(s):
    return s.replace('@', '').replace('·', '')


# ---- labels ----------------------------------------------------------------------------------------------------------
def doc_classes(doc, a=None):
    a = a or S.analyze(doc)
    cl = []
    kinds = collections.Counter(c['k'] for _, _, c in S.cells(doc))
    types = doc['types']
    cl.append(f'spines={len(types)}')
    if a.has_split:
        cl.append('split')
    if a.has_join:
        cl.append('join')
    if a.has_partial_term:
        cl.append('partial-termination')
    if kinds['chord']:
        cl.append('chord')
    if kinds['rest']:
        cl.append('rest')
    if kinds['lcomment']:
        cl.append('field-comment')
    if a.global_rows:
        cl.append('global-comment')
    if any(t != '**kern' for t in types):
        cl.append('non-kern-spine')
    notes = [n for _, _, c in S.cells(doc) if 'notes' in c for n in c['notes']]
    if any('.' in n['dur'] for n in notes):
        cl.append('dotted')
    if any(set(n['dur']) & {'q', 'qq', 'p', 'P'} for n in notes):
        cl.append('grace')
    if any('%' in d for n in notes for d in n['dur']):
        cl.append('rational')
    if any(n['acc'] for n in notes):
        cl.append('accidental')
    if any(len(n['sigs']) >= 2 for n in notes):
        cl.append('multi-signifier')
    if kinds['bar']:
        cl.append('barline')
    return cl


def clef_in_force(doc, a=None):
    """(row, col) -> text of the clef governing that cell, following the spine paths of the model"""
    a = a or S.analyze(doc)
    clef = {}
    for i in a.cell_rows:
        for k, c in enumerate(doc['rows'][i]['c']):
            pr = a.parents[i][k]
            cur = clef.get(pr) if pr is not None else None
            if c['k'] == 'interp' and c.get('sig') == 'clef':
                cur = c['t']
            clef[(i, k)] = cur
    return clef


# ---- an Exporter object with a past --------------------------------------------------------------------------------
_PRIMER_DOCS = []


def primed_exporter():
    """a NEW kernpy.Exporter that has already exported a few fixed documents with assorted options (other spine
    counts and types, filters, spine selections, excerpts, all encodings).  Whatever it exports afterwards must equal
    what kernpy.dumps (a fresh Exporter per call) gives: an Exporter must not remember other documents or options."""
    if not _PRIMER_DOCS:
        for t in ('**kern\t**text\t**kern\n*clefF4\t*\t*clefG2\n*k[f#]\t*\t*k[f#]\n=1\t=1\t=1\n4.C;L\tla\t8e-J 8g\n*^\t*\t*\n4D\t4F#\tle\t2rr\n*v\t*v\t*\t*\n=2\t=2\t=2\n2E\t.\t4a\n==\t==\t==\n*-\t*-\t*-\n',
                  '**dynam\t**kern\n*\t*clefC3\n*\t*M3/4\nf\t4cc#(\n=1\t=1\np\t4dd)\n=2\t=2\n.\t2r\n*-\t*-\n',
                  '**kern\n*clefG2\n=1\n4c\n=2\n4d\n=3\n4e\n*-\n'):
            d, _ = kp.loads(t)
            _PRIMER_DOCS.append(d)
    ex = kp.Exporter()
    G_ = kp.core.generic.Generic
    for d in _PRIMER_DOCS:
        for kw in ({}, {'kern_type': E.eKern}, {'kern_type': E.bEkern, 'exclude': [TC.DURATION]}, {'spine_ids': [0]},
                   {'include': [TC.CORE, TC.HEADER], 'kern_type': E.bKern}, {'from_measure': 1, 'to_measure': 1},
                   {'from_measure': 2, 'kern_type': E.eKern}, {'kern_type': E.agnosticKern}, {'kern_type': E.agnosticExtendedKern, 'spine_types': ['**kern']}):
            try:
                ex.export_string(d, G_.parse_options_to_ExportOptions(**kw))
            except Exception:  # noqa  (what the primers export is not under test)
                pass
    return ex


def via_primed(ex, doc, **kw):
    okw = {('kern_type' if k == 'encoding' else k): v for k, v in kw.items()}
    return ex.export_string(doc, kp.core.generic.Generic.parse_options_to_ExportOptions(**okw))


def via_reused_options(doc, **kw):
    """the export obtained with ONE Exporter and ONE caller-owned ExportOptions object that were first used for a
    one-spine document and a two-spine document of other spine types; options describe a selection, not a document,
    and an Exporter is a stateless service, so the text must equal what kernpy.dumps gives with the same options"""
    primed_exporter()  # fills _PRIMER_DOCS
    okw = {('kern_type' if k == 'encoding' else k): v for k, v in kw.items()}
    opts = kp.core.generic.Generic.parse_options_to_ExportOptions(**okw)
    ex = kp.Exporter()
    for d in (_PRIMER_DOCS[2], _PRIMER_DOCS[1]):
        try:
            ex.export_string(d, opts)
        except Exception:  # noqa  (e.g. a spine id that the small document does not have)
            pass
    return ex.export_string(doc, opts)


def via_dump_file(doc, expect=None, **kw):
    """the same export through kernpy.dump (file on disk).  When the expected text is given the file exists
    beforehand, once with other content of exactly the expected byte length and once with longer content: what dump
    leaves in the file must not depend on what was there before"""
    import os
    import tempfile
    with tempfile.TemporaryDirectory(prefix='kv_dump_') as d:
        path = os.path.join(d, 'out.krn')
        outs = []
        fills = [None] if expect is None else ['Z' * len(expect.encode('utf-8')), expect + 'ZZ\tZZ\n']
        for fill in fills:
            if fill is not None:
                with open(path, 'w', encoding='utf-8', newline='') as f:
                    f.write(fill)
            kp.dump(doc, path, **kw)
            with open(path, 'rb') as f:
                outs.append(f.read().decode('utf-8', errors='replace'))  # a damaged file is a finding, not a crash of the harness
        if len(outs) == 2 and outs[0] != outs[1]:
            raise Bad('dump-depends-on-old-file', f'dump({_kwrepr(kw)}) onto an existing file: the result depends on the previous content '
                                                  f'of the file\n--- over same-length content\n{outs[0]}--- over longer content\n{outs[1]}')
        return outs[0]
