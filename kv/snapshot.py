"""Deep structural snapshot of a kernpy Document and of the module-level constants (C14, C15, C19, C20)."""
import re

import kernpy as kp

_ADDR = re.compile(r'0x[0-9a-fA-F]+')


def _tok(t):
    if t is None:
        return None
    dd = {}
    for a, v in sorted(vars(t).items()):
        if a in ('pitch_duration_subtokens', 'decoration_subtokens', 'subtokens'):
            dd[a] = [(s.encoding, s.category.name) for s in v]
        elif a == 'notes_tokens':
            dd[a] = [_tok(x) for x in v]
        elif a == 'category':
            dd[a] = v.name
        elif a == 'bounding_box':
            dd[a] = (v.from_x, v.from_y, v.to_x, v.to_y)
        else:
            dd[a] = _ADDR.sub('0x', repr(v))  # object addresses inside error messages are not document state
    return [type(t).__name__, sorted(dd.items(), key=lambda kv: kv[0])]


def snapshot(doc):
    pos = {}
    for si, nodes in enumerate(doc.tree.stages):
        for k, n in enumerate(nodes):
            pos[id(n)] = (si, k)
    out = []
    for si, nodes in enumerate(doc.tree.stages):
        for k, n in enumerate(nodes):
            out.append([si, k, n.stage, _tok(n.token), pos.get(id(n.parent)),
                        [pos.get(id(c)) for c in n.children],
                        pos.get(id(n.header_node)) if n.header_node is not None else None,
                        pos.get(id(n.last_spine_operator_node)) if n.last_spine_operator_node is not None else None,
                        sorted((kk, pos.get(id(v))) for kk, v in n.last_signature_nodes.nodes.items())])
    bbs = sorted((str(k), (v.from_measure, v.to_measure, (v.bounding_box.from_x, v.bounding_box.from_y, v.bounding_box.to_x, v.bounding_box.to_y)))
                 for k, v in doc.page_bounding_boxes.items())
    return [out, list(doc.measure_start_tree_stages), doc.header_stage, bbs, pos.get(id(doc.tree.root))]


def first_difference(s1, s2):
    if s1 == s2:
        return None
    for i, (a, b) in enumerate(zip(s1[0], s2[0])):
        if a != b:
            for j, (x, y) in enumerate(zip(a, b)):
                if x != y:
                    field = ['stage', 'index', 'node.stage', 'token', 'parent', 'children', 'header', 'last_spine_operator', 'last_signatures'][j]
                    return f'node at stage {a[0]} index {a[1]}: {field} {x!r} -> {y!r}'
    if len(s1[0]) != len(s2[0]):
        return f'{len(s1[0])} nodes -> {len(s2[0])} nodes'
    for name, a, b in zip(['nodes', 'measure_start_tree_stages', 'header_stage', 'page_bounding_boxes', 'root'], s1, s2):
        if a != b:
            return f'{name}: {a!r} -> {b!r}'
    return 'differs'


def constants():
    T = kp.core.tokens
    d = kp.ExportOptions.default()
    return {
        'HEADERS': sorted(T.HEADERS), 'CORE_HEADERS': sorted(T.CORE_HEADERS), 'SPINE_OPERATIONS': sorted(T.SPINE_OPERATIONS),
        'BEKERN_CATEGORIES': sorted(c.name for c in T.BEKERN_CATEGORIES), 'NON_CORE_CATEGORIES': sorted(c.name for c in T.NON_CORE_CATEGORIES),
        'kp.BEKERN_CATEGORIES': sorted(c.name for c in kp.BEKERN_CATEGORIES),
        'hierarchy': repr(kp.TokenCategoryHierarchyMapper.hierarchy),
        'ExportOptions.default': repr(sorted((k, sorted(v, key=repr) if isinstance(v, (set, list)) else v) for k, v in vars(d).items())),
        'AVAILABLE_INTERVALS': list(kp.AVAILABLE_INTERVALS), 'TERMINATOR': T.TERMINATOR, 'EMPTY_TOKEN': T.EMPTY_TOKEN,
        'TokenCategory.all': sorted(c.name for c in kp.TokenCategory.all()),
    }
