"""Text-level Humdrum tools, independent of kernpy: well-formedness validator and signature tracker."""
import re


class Err(str):
    """error message with structure: .line (index among non-empty lines), .cells, .paths, .kind"""
    def __new__(cls, msg, line=None, cells=None, paths=None, kind=None):
        o = str.__new__(cls, msg)
        o.line, o.cells, o.paths, o.kind = line, cells, paths, kind
        return o


def track(text):
    """-> (notes, error).  notes = [(line index, column, cell, (clef, key, time, meter))] for every note/rest/chord cell, in
    reading order; error = None or a string saying why the text is not a well-formed Humdrum document (header line
    first; cell count of every line == live spine paths; '*^' +1, a run of k>=2 adjacent '*v' -(k-1), lone '*v' is an
    error, '*-' -1; at the end no path alive)."""
    lines = [l for l in text.split('\n') if l != '']
    paths = None
    out = []
    for li, l in enumerate(lines):
        if l.startswith('!!'):
            continue
        cells = l.split('\t')
        if paths is None:
            if not all(c.startswith('**') for c in cells):
                return out, f'line {li}: first line is not a header line: {l!r}'
            paths = [dict(clef=None, key=None, time=None, meter=None) for _ in cells]
            continue
        if any(c.startswith('**') for c in cells):
            return out, f'line {li}: second header line {l!r}'
        if not paths:
            return out, f'line {li}: content after all spines were terminated: {l!r}'
        if len(cells) != len(paths):
            return out, Err(f'line {li}: {len(cells)} cells for {len(paths)} live spine paths: {l!r}', li, cells, len(paths), 'width')
        newp = []
        i = 0
        while i < len(cells):
            c = cells[i]
            p = paths[i]
            if c == '*^':
                newp += [dict(p), dict(p)]
            elif c == '*-':
                pass
            elif c == '*v':
                j = i
                while j + 1 < len(cells) and cells[j + 1] == '*v':
                    j += 1
                if j == i:
                    return out, Err(f'line {li}: lone *v: {l!r}', li, cells, len(paths), 'lone-v')
                newp.append(dict(p))
                i = j
            else:
                if c.startswith('*clef'):
                    p['clef'] = c
                elif c.startswith('*k[') or c == '*kcancel':
                    p['key'] = c
                elif re.match(r'\*M\d', c):
                    p['time'] = c
                elif c.startswith('*met(') or c.startswith('*M('):
                    p['meter'] = c
                elif c and c[0] not in '*=!' and c != '.':
                    out.append((li, i, c, (p['clef'], p['key'], p['time'], p['meter'])))
                newp.append(p)
            i += 1
        paths = newp
    if paths is None:
        return out, 'no header line'
    if paths:
        return out, f'{len(paths)} spine path(s) not terminated'
    return out, None
