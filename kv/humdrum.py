"""Text-level Humdrum tools, independent of kernpy: well-formedness validator and signature tracker."""
import re


class Err(str):
    """error message with structure: .line (index among non-empty lines), .cells, .paths, .kind"""
    def __new__(cls, msg, line=None, cells=None, paths=None, kind=None):
        o = str.__new__(cls, msg)
        o.line, o.cells, o.paths, o.kind = line, cells, paths, kind
        return o


def track(text):
    """-> (notes, error).  notes = [(line index, column, cell, (clef, key, time, meter))] for every note/rest/chord cell, in
    reading order; error = None or a string saying why the text is not a well-formed Humdrum document (header line
    first; cell count of every line == live spine paths; '*^' +1, a run of k>=2 adjacent '*v' -(k-1), lone '*v' is an
    error, '*-' -1; at the end no path alive)."""
    lines = [l for l in text.split('\n') if l != '']
    paths = None
    out = []
    for li, l in enumerate(lines):
        if l.startswith('!!'):
            continue
        cells = l.split('\t')
        if paths is None:
            if not all(c.startswith('**') for c in cells):
                return out, f'line {li}: first line is not a header line: {l!r}'
            paths = [dict(clef=None, key=None, time=None, meter=None) for _ in cells]
            continue
        if any(c.startswith('**') for c in cells):
            return out, f'line {li}: second header line {l!r}'
        if not paths:
            return out, f'line {li}: content after all spines were terminated: {l!r}'
        if len(cells) != len(paths):
            return out, Err(f'line {li}: {len(cells)} cells for {len(paths)} live spine paths: {l!r}', li, cells, len(paths), 'width')
        newp = []
        i = 0
        while i < len(cells):
            c = cells[i]
            p = paths[i]
            if c == '*^':
                newp += [dict(p), dict(p)]
            elif c == '*-':
                pass
            elif c == '*v':
                j = i
                while j + 1 < len(cells) and cells[j + 1] == '*v':
                    j += 1
                if j == i:
                    return out, Err(f'line {li}: lone *v: {l!r}', li, cells, len(paths), 'lone-v')
                newp.append(dict(p))
                i = j
            else:
                if c.startswith('*clef'):
                    p['clef'] = c
                elif c.startswith('*k[') or c == '*kcancel':
                    p['key'] = c
                elif re.match(r'\*M\d', c):
                    p['time'] = c
                elif c.startswith('*met(') or c.startswith('*M('):
                    p['meter'] = c
                elif c and c[0] not in '*=!' and c != '.':
                    out.append((li, i, c, (p['clef'], p['key'], p['time'], p['meter'])))
                newp.append(p)
            i += 1
        paths = newp
    if paths is None:
        return out, 'no header line'
    if paths:
        return out, f'{len(paths)} spine path(s) not terminated'
    return out, None


def columns(text):
    """-> (rows, error).  rows = [(line text, [spine index of every cell] or None for a global comment / reference line)] for
    every non-empty line of a well-formed Humdrum text; the spine index is the position of the header the cell descends
    from.  Sub-spines join within their own spine only (a run of '*v' that would span two spines is reported as an error:
    the text alone cannot say where one group ends)."""
    lines = [l for l in text.split('\n') if l != '']
    paths = None
    rows = []
    for li, l in enumerate(lines):
        if l.startswith('!!'):
            rows.append((l, None))
            continue
        cells = l.split('\t')
        if paths is None:
            if not all(c.startswith('**') for c in cells):
                return rows, f'line {li}: first line is not a header line'
            paths = list(range(len(cells)))
            rows.append((l, list(paths)))
            continue
        if len(cells) != len(paths):
            return rows, f'line {li}: {len(cells)} cells for {len(paths)} live spine paths'
        rows.append((l, list(paths)))
        newp = []
        i = 0
        while i < len(cells):
            c, p = cells[i], paths[i]
            if c == '*^':
                newp += [p, p]
            elif c == '*-':
                pass
            elif c == '*v':
                j = i
                while j + 1 < len(cells) and cells[j + 1] == '*v':
                    j += 1
                if j == i:
                    return rows, f'line {li}: lone *v'
                if len(set(paths[i:j + 1])) != 1:
                    return rows, f'line {li}: a run of *v spans two spines (ambiguous without the tree)'
                newp.append(p)
                i = j
            else:
                newp.append(p)
            i += 1
        paths = newp
    if paths is None:
        return rows, 'no header line'
    return rows, None


def project(rows, keep):
    """the text of the given rows with only the cells whose spine index is in `keep`; lines left without cells or with
    placeholders only are dropped; global comment lines are dropped (the exporter does not write them)"""
    out = []
    for l, sp in rows:
        if sp is None:
            continue
        cells = [c for c, s in zip(l.split('\t'), sp) if s in keep]
        if cells and not all(c in ('.', '*', '') for c in cells):
            out.append('\t'.join(cells))
    return '\n'.join(out) + ('\n' if out else '')
