"""The category tree printed in README.md ("Tree:" block, lines 88-124), transcribed by hand as a parent map.
Nothing here is read from kernpy."""
PARENT = {
    'STRUCTURAL': None, 'HEADER': 'STRUCTURAL', 'SPINE_OPERATION': 'STRUCTURAL',
    'CORE': None, 'NOTE_REST': 'CORE', 'DURATION': 'NOTE_REST', 'NOTE': 'NOTE_REST', 'PITCH': 'NOTE',
    'DECORATION': 'NOTE', 'ALTERATION': 'NOTE', 'REST': 'NOTE_REST', 'CHORD': 'CORE', 'EMPTY': 'CORE', 'ERROR': 'CORE',
    'SIGNATURES': None, 'CLEF': 'SIGNATURES', 'TIME_SIGNATURE': 'SIGNATURES', 'METER_SYMBOL': 'SIGNATURES',
    'KEY_SIGNATURE': 'SIGNATURES', 'KEY_TOKEN': 'SIGNATURES',
    'ENGRAVED_SYMBOLS': None, 'OTHER_CONTEXTUAL': None, 'BARLINES': None,
    'COMMENTS': None, 'FIELD_COMMENTS': 'COMMENTS', 'LINE_COMMENTS': 'COMMENTS',
    'DYNAMICS': None, 'HARMONY': None, 'FINGERING': None, 'LYRICS': None, 'INSTRUMENTS': None,
    'IMAGE_ANNOTATIONS': None, 'BOUNDING_BOXES': 'IMAGE_ANNOTATIONS', 'LINE_BREAK': 'IMAGE_ANNOTATIONS',
    'OTHER': None, 'MHXM': None, 'ROOT': None,
}
ALL = list(PARENT)
TOP = [c for c in ALL if PARENT[c] is None]
assert len(ALL) == 37

CHILDREN = {c: [k for k in ALL if PARENT[k] == c] for c in ALL}


def desc(c):
    """proper descendants"""
    out = set()
    for k in CHILDREN[c]:
        out.add(k)
        out |= desc(k)
    return out


DESC = {c: frozenset(desc(c)) for c in ALL}
DESC_STAR = {c: frozenset(DESC[c] | {c}) for c in ALL}
LEAVES = {c: frozenset(k for k in DESC[c] if not CHILDREN[k]) for c in ALL}


def selected(include, exclude):
    """include/exclude: iterables of names or None."""
    inc = set(ALL) if include is None else set().union(*[DESC_STAR[c] for c in include]) if include else set()
    exc = set().union(*[DESC_STAR[c] for c in exclude]) if exclude else set()
    return inc - exc


def match(c, include, exclude):
    return bool(DESC_STAR[c] & selected(include, exclude))
