"""Fresh-process executor for C14: reads {'doc':..., 'ops': [...]} from stdin, applies the operations in order to one
fresh import in THIS (pristine) interpreter and prints the JSON list of results."""
import json
import os
import sys
import warnings

if __name__ == '__main__':
    warnings.simplefilter('ignore')
    here = os.path.dirname(os.path.dirname(os.path.abspath(__file__)))
    sys.path.insert(0, here)
    sys.path.insert(0, os.path.abspath(os.environ.get('KV_REPO', '/repo')))
    from kv.props import c14
    from kv import spine as S
    import kernpy as kp
    case = json.load(sys.stdin)
    doc, _ = kp.loads(S.render(case['doc']))
    keys = []
    for row in case['doc']['rows']:
        if 'g' in row and row['g'].startswith('!!!') and ':' in row['g']:
            k = row['g'][3:].split(':')[0]
            if k not in keys:
                keys.append(k)
    state = {'doc_keys': keys}
    out = []
    class _R(c14.Session):  # only the option resolution of a Session is needed here
        def __init__(self):
            pass
    res = _R()
    for o in case['ops']:
        r = res.resolve(o)
        out.append([c14.apply(doc, x, state) for x in r] if isinstance(r, list) else c14.apply(doc, r, state))
    json.dump(out, sys.stdout, default=repr)
