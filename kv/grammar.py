"""Hypothesis strategies for single Humdrum cells.  Every strategy returns a JSON-able *cell descriptor*:

    {'k': kind, 't': source text, 'e': expected default-export text (non-note kinds), 'cat': category name or None,
     'notes': [note, ...]}                                    (kinds note / rest / chord)
    note = {'dur': [sub-parts], 'p': pitch letters or 'r', 'acc': accidental text incl. display suffix, 'sigs': [chars]}

The descriptor is the harness's own statement of what the cell means; kernpy is never consulted to build it.
'cat' is None where the documentation does not pin the category (key designations, assorted tandem interpretations).
"""
from hypothesis import strategies as st

# ---------------------------------------------------------------------------------------------------------------------
# signifiers (DESIGN.md 3.1): every single printable character the grammar accepts as a note decoration, minus the ten
# the property excludes (< > ? x y & and the duration marks q p P .)
SIG = list("\"$'()/\\:;JKLkMmWwNOSTtVXZ[]_^`~ijls{}")
assert len(SIG) == 37 and len(set(SIG)) == 37
_SIG_SET = set(SIG)
ACC_SUFFIX_SIGS = set('XZij')          # also readable as accidental-display suffix: only on cells without accidental
REST_SIG = list("();X'{}")
# multi-character signifier units of the grammar (elided slurs, inverted mordent with tone).  Outside the canonicity
# claim of C01 (they contain '&' / combine), but inside the grammar: used where content conservation is checked (C03).
SIG_EXT = ['&(', '&&(', '&)', '&&)', 'Ww',
           # further units of the grammar that are outside the canonicity claim: editorial marks, footnotes, staff changes
           # attached to a slur / beam, hidden tie
           'xx', 'yy', '??', '[y', '(<', 'L>',
           # grace / appoggiatura marks written as a signifier after the pitch (inside the duration they are duration marks)
           'q', 'p', 'P']
_POST_ONLY = {'q', 'p', 'P'}
_DISPLAY_CHARS = set('xXiIjZyY')
DISPLAY = ['x', 'X', 'i', 'I', 'j', 'Z', 'y', 'yy', 'Y', 'YY']
NUMS = ['1', '2', '4', '8', '16', '32', '64', '0', '00', '3', '6', '12', '24', '4%3', '3%2', '16%5']
LET = 'abcdefg'

# the everyday marks (ties, slurs, phrases, fermata, articulations, beams): a third of the notes carry only these
SIG_COMMON = list("[]_(){};'\"`~^LJ")
sig_lists = st.one_of(st.lists(st.sampled_from(SIG), max_size=5), st.lists(st.sampled_from(SIG), max_size=5),
                      st.lists(st.sampled_from(SIG_COMMON), min_size=1, max_size=4))
rest_sig_lists = st.lists(st.sampled_from(REST_SIG), max_size=3)


@st.composite
def durations(draw, grace=True, optional=True):
    if optional and draw(st.integers(0, 13)) == 0:
        return []
    num = draw(st.sampled_from(NUMS))
    dots = draw(st.sampled_from([0, 0, 0, 1, 1, 2]))
    g = draw(st.sampled_from(['', '', '', '', 'q', 'qq', 'p', 'P'])) if grace else ''
    return [num] + ['.'] * dots + ([g] if g else [])


@st.composite
def pitches(draw):
    L = draw(st.sampled_from(LET))
    if draw(st.booleans()):
        L = L.upper()
    return L * draw(st.sampled_from([1, 1, 1, 2, 2, 3, 4, 5]))


@st.composite
def accidentals(draw, wide=False, suffix=True):
    acc = draw(st.sampled_from(['', '', '', '#', '-', '##', '--', 'n'] + (['###', '---'] if wide else [])))
    if acc and suffix and draw(st.integers(0, 5)) == 0:
        acc += draw(st.sampled_from(DISPLAY))
    return acc


@st.composite
def notes(draw, acc=True, sigs=True, grace=True, optional_dur=True, sigpool=None, ext=False):
    if ext and sigpool is None:
        sigpool = SIG + SIG_EXT + SIG_EXT
    n = {'dur': draw(durations(grace=grace, optional=optional_dur)), 'p': draw(pitches()),
         'acc': draw(accidentals()) if acc else '',
         'sigs': draw(st.lists(st.sampled_from(sigpool), max_size=4) if sigpool else sig_lists) if sigs else []}
    return n


@st.composite
def rests(draw, sigs=True):
    return {'dur': draw(durations(grace=False, optional=False)), 'p': 'r', 'acc': '',
            'sigs': draw(rest_sig_lists) if sigs else []}


def constrain_cell(ns, rule_iv=True):
    """Construction rules (i), (ii), (iv) of DESIGN.md 3.1, applied to all notes of one cell (note or chord)."""
    anyacc = any(n['acc'] for n in ns)
    allsigs = [s for n in ns for s in n['sigs']]
    dropw = 'W' in allsigs and 'w' in allsigs
    hasrest = rule_iv and len(ns) > 1 and any(n['p'] == 'r' for n in ns)
    dropboth = 'Ww' in allsigs
    # a multi-character unit shares no character with any other unit of the cell (so that no two units can be read as
    # one, whatever order they are written or exported in); x / y units only on cells without accidental
    multi = [s for s in dict.fromkeys(allsigs) if len(s) > 1]
    banned = set()
    keep_multi = []
    for m in multi:
        if not (set(m) & banned) and not (anyacc and set(m) & _DISPLAY_CHARS):
            keep_multi.append(m)
            banned |= set(m)
            if m == 'yy':
                banned.add('[')  # '[' directly followed by 'yy' reads as the hidden tie '[y' + 'y'
    for n in ns:
        if set(n['dur']) & {'q', 'qq', 'p', 'P'} or n['p'] == 'r':
            n['sigs'] = [s for s in n['sigs'] if s not in _POST_ONLY]
        n['sigs'] = [s for s in n['sigs'] if (len(s) > 1 and s in keep_multi) or (len(s) == 1 and s not in banned)]
        seen = set()
        dedup = []
        for s_ in n['sigs']:  # a multi-character unit at most once per note: 'yy' written twice in a row is 'yyyy'
            if (len(s_) > 1 or s_ not in _SIG_SET) and s_ in seen:
                continue
            seen.add(s_)
            dedup.append(s_)
        n['sigs'] = dedup
        n['sigs'] = [s for s in n['sigs'] if not (anyacc and set(s) & _DISPLAY_CHARS)]
    for n in ns:
        n['sigs'] = [s for s in n['sigs']
                     if not (anyacc and s in ACC_SUFFIX_SIGS) and not (dropw and s == 'w') and not (dropboth and s in ('W', 'w'))
                     and not (hasrest and s not in REST_SIG)]
    return ns


# ---- rendering -------------------------------------------------------------------------------------------------------
def render_member(n, layout=None):
    """layout: list of (sig, slot) with slot in pre/mid/mid2/post; None = canonical-ish (all after)."""
    dur = ''.join(n['dur'])
    if layout is None:
        return dur + (n['p'] if n['p'] != 'r' else ('rr' if n.get('rr') else 'r') + n.get('pos', '')) + n['acc'] + ''.join(n['sigs'])
    pre = ''.join(s for s, sl in layout if sl == 'pre')
    mid = ''.join(s for s, sl in layout if sl == 'mid')
    mid2 = ''.join(s for s, sl in layout if sl == 'mid2')
    post = ''.join(s for s, sl in layout if sl == 'post')
    if n['p'] == 'r':
        # rest variants of the grammar (extended profile only): whole-measure spelling 'rr', explicit vertical position
        r = 'rr' if n.get('rr') else 'r'
        pos = n.get('pos', '')
        if pos and len(layout) % 2:
            return pre + dur + r + pos + mid + mid2 + post
        return pre + dur + r + mid + mid2 + post + pos
    if not dur:
        pre, mid = pre + mid, ''
    if not n['acc']:
        post, mid2 = mid2 + post, ''
    return pre + dur + mid + n['p'] + mid2 + n['acc'] + post


@st.composite
def layouts(draw, n):
    """a placement (with optional repetition) of the note's signifiers around duration / pitch / accidental"""
    if n['p'] == 'r':
        slots = ['pre', 'post', 'post']
    else:
        slots = ['pre', 'mid', 'mid2', 'post', 'post']
    if draw(st.integers(0, 3)) == 0:
        slots = ['post']  # the usual way to write a note: everything after the pitch and the accidental
    sigs = list(n['sigs'])
    if sigs and draw(st.integers(0, 3)) == 0:
        sigs = draw(st.permutations(sigs))
    out, later = [], []
    for s in sigs:
        if s in _POST_ONLY:
            out.append([s, 'post'])
            continue
        out.append([s, draw(st.sampled_from(slots))])
        if draw(st.integers(0, 6)) == 0 and s in _SIG_SET:
            # repetition (canonical alphabet only: 'yy' twice is 'yyyy'): directly after the first occurrence, or after all
            # the other signifiers (in the same slot the two are then separated by them: 4c';')
            rep = [s, draw(st.sampled_from(slots + [out[-1][1]] * 2))]
            (later if draw(st.booleans()) else out).append(rep)
    return out + later


def note_cell_from(ns, layouts_):
    kind = 'chord' if len(ns) > 1 else ('rest' if ns[0]['p'] == 'r' else 'note')
    text = ' '.join(render_member(n, lay) for n, lay in zip(ns, layouts_))
    return {'k': kind, 't': text, 'cat': 'CHORD' if kind == 'chord' else 'NOTE_REST', 'notes': ns, 'lay': layouts_}


@st.composite
def kern_data_cells(draw, chords=True, acc=True, sigs=True, grace=True, rest_in_chord=True, null_weight=2, rule_iv=True,
                    ext=False, chord_optional_dur=False):
    x = draw(st.integers(0, 11))
    if x < null_weight:
        return null_cell()
    if x < 7 or not chords and x >= 9:
        ns = [draw(notes(acc=acc, sigs=sigs, grace=grace, ext=ext))]
    elif x < 9:
        ns = [draw(rests(sigs=sigs))]
        if ext:
            if draw(st.integers(0, 2)) == 0:
                ns[0]['rr'] = True
            if draw(st.integers(0, 2)) == 0:
                ns[0]['pos'] = draw(st.sampled_from(['cc', 'b', 'G', 'ccc', 'BB', 'e', 'dd']))
    else:
        k = draw(st.integers(2, 4))
        ns = []
        for _ in range(k):
            if rest_in_chord and draw(st.integers(0, 6)) == 0:
                ns.append(draw(rests(sigs=sigs)))
            else:
                ns.append(draw(notes(acc=acc, sigs=sigs, grace=grace, optional_dur=False, ext=ext)))
                if chord_optional_dur and ns[:-1] and draw(st.integers(0, 2)) == 0:
                    ns[-1]['dur'] = []  # a later chord note may leave its duration to the preceding one (C01 only)
    constrain_cell(ns, rule_iv=rule_iv)
    lays = [draw(layouts(n)) for n in ns]
    return note_cell_from(ns, lays)


def rerender(cell, layouts_):
    c = dict(cell)
    c['t'] = ' '.join(render_member(n, lay) for n, lay in zip(cell['notes'], layouts_))
    c['lay'] = layouts_
    return c


# ---- simple cells ----------------------------------------------------------------------------------------------------
def null_cell():
    return {'k': 'null', 't': '.', 'e': '.', 'cat': 'EMPTY'}


def nullinterp_cell():
    return {'k': 'nullinterp', 't': '*', 'e': '*', 'cat': 'EMPTY'}


def op_cell(t):
    return {'k': 'op', 't': t, 'e': t, 'cat': 'SPINE_OPERATION'}


def header_cell(t):
    return {'k': 'header', 't': t, 'e': t, 'cat': 'HEADER'}


BARTYPES = ['', '', '', '', '||', '|!', '|!:', '|:', '!|:', ':|!', ':|!|:', ':||:', ':!:', ':!!:']


@st.composite
def barlines(draw, number=None, hidden=False, force_hidden=False):
    eq = draw(st.sampled_from(['=', '=', '=', '==']))
    ty = draw(st.sampled_from(BARTYPES))
    f = draw(st.sampled_from(['', '', '', ';']))
    if number is None:
        num = draw(st.sampled_from(['', '1', '7', '12', '130']))
    else:
        num = str(number) if draw(st.integers(0, 3)) else ''
    if force_hidden or hidden and draw(st.integers(0, 3)) == 0:
        # invisible barline: a barline token (it opens a measure, it is listed), deliberately not exported
        return {'k': 'bar', 't': eq + num + '-' + ty + f, 'e': eq + ty + f, 'cat': 'BARLINES', 'hidden': True}
    return {'k': 'bar', 't': eq + num + ty + f, 'e': eq + ty + f, 'cat': 'BARLINES'}


SUPPORTED_CLEFS = ['G2', 'F3', 'F4', 'C1', 'C2', 'C3', 'C4']
OCTMARKS = ['', 'v', 'vv', '^', '^^']


@st.composite
def clefs(draw, supported_only=False):
    if supported_only or draw(st.integers(0, 3)):
        c = draw(st.sampled_from(SUPPORTED_CLEFS))
        t = '*clef' + c[0] + draw(st.sampled_from(['', '', '', 'v', 'vv', '^', '^^'])) + c[1]
    else:
        t = '*clef' + draw(st.sampled_from(['P', 'T', 'G', 'F', 'C', 'G1', 'F5', 'C5', 'Gv', 'P2']))
    return {'k': 'interp', 't': t, 'e': t, 'cat': 'CLEF', 'sig': 'clef'}


PCS = ['f#', 'c#', 'g#', 'd#', 'a#', 'e#', 'b#', 'b-', 'e-', 'a-', 'd-', 'g-', 'c-', 'f-', 'fn', 'f##', 'b--']


@st.composite
def keysigs(draw):
    if draw(st.integers(0, 9)) == 0:
        t = '*kcancel'
    else:
        pcs = draw(st.lists(st.sampled_from(PCS), max_size=7))
        t = '*k[' + ''.join(pcs) + ']' + draw(st.sampled_from(['', '', '', 'X']))
    return {'k': 'interp', 't': t, 'e': t, 'cat': 'KEY_SIGNATURE', 'sig': 'key'}


@st.composite
def timesigs(draw):
    n = st.sampled_from(['2', '3', '4', '6', '9', '12', '5', '7'])
    d = st.sampled_from(['1', '2', '4', '8', '16'])
    std = lambda: draw(n) + '/' + draw(d)  # noqa
    x = draw(st.integers(0, 9))
    if x < 5:
        t = std()
    elif x == 5:
        t = draw(n) + '+' + draw(n) + '/' + draw(d)
    elif x == 6:
        t = std() + '+' + std()
    elif x == 7:
        t = std() + draw(st.sampled_from(['', ';2'])) + ':' + std()
    elif x == 8:
        t = std() + '|' + std()
    else:
        t = std() + '%2'
    return {'k': 'interp', 't': '*M' + t, 'e': '*M' + t, 'cat': 'TIME_SIGNATURE', 'sig': 'time'}


@st.composite
def meters(draw):
    t = draw(st.sampled_from(['*met(c)', '*met(c|)', '*M(c)', '*M(c|)', '*met(C)', '*met(O)', '*met(C|)', '*met(O.)',
                              '*met(C3)', '*met(O|3/2)', '*met(Cr)', '*met(C.)']))
    return {'k': 'interp', 't': t, 'e': t, 'cat': 'METER_SYMBOL', 'sig': 'meter'}


# tandem interpretations whose category the documentation does not pin ('cat': None = whatever kernpy says, checked
# only for stability); text must be reproduced verbatim
OTHER_TANDEMS = ['*MM120', '*MM60.5', '*MM96-104', '*C:', '*a:', '*E-:', '*f#:', '*d:dor', '*G:mix', '*C/a:', '*?:', '*a1',
                 '*8va', '*X8va', '*8ba', '*X8ba', '*8vva', '*staff1', '*staff2', '*staff+3', '*staff1/2',
                 '*part1', '*part12', '*group1', '*ITrd1c2', '*Trd-1c-2', '*tb8', '*tb16',
                 '*>A', '*>B2', '*>[A,B,A]', '*>norep[A,B]', '*>1st ending', '*lh', '*rh',
                 '*ped', '*Xped', '*ped*', '*tuplet', '*Xtuplet', '*cue', '*Xcue', '*tremolo', '*Xtremolo',
                 '*tstart', '*tend', '*rscale:2', '*rscale:1/2', '*S/sic', '*S/ossia', '*S/fin', '*S-',
                 '*solo', '*accomp', '*strophe', '*above', '*below', '*below2', '*below:2', '*centered', '*ela']
INSTRUMENTS = ['*Ipiano', '*Ivioln', '*I"Organo', '*I"Violino I', '*Icemba', '*IGpiano', '*I"ñandú, "q"']
INSTR_TITLES = ['*mIpiano', '*mI"Pianoforte']
BBOXES = ['*xywh-1:1,2,30,40', '*xywh-12:0,0,5,5', '*xywh-2:100,200,300,400', '*xywh-a1:7,8,9,10']


@st.composite
def other_tandems(draw):
    x = draw(st.integers(0, 9))
    if x < 7:
        t = draw(st.sampled_from(OTHER_TANDEMS))
        return {'k': 'interp', 't': t, 'e': t, 'cat': None}
    if x == 7:
        t = draw(st.sampled_from(INSTRUMENTS))
        return {'k': 'interp', 't': t, 'e': t, 'cat': None}  # documented INSTRUMENTS, observed OTHER: not pinned
    if x == 8:
        t = draw(st.sampled_from(INSTR_TITLES))
        return {'k': 'interp', 't': t, 'e': t, 'cat': None}
    t = draw(st.sampled_from(BBOXES))
    return {'k': 'interp', 't': t, 'e': t, 'cat': 'BOUNDING_BOXES'}


@st.composite
def kern_interps(draw, signatures=True, supported_clefs_only=False, others=True):
    pool = []
    if signatures:
        pool += [clefs(supported_only=supported_clefs_only), keysigs(), timesigs(), meters()]
    if others:
        pool += [other_tandems(), other_tandems()]
    pool.append(st.just(nullinterp_cell()))
    return draw(st.one_of(*pool))


# ---- text of the non-kern spines -------------------------------------------------------------------------------------
OWN_CAT = {'**text': 'LYRICS', '**dynam': 'DYNAMICS', '**dyn': 'DYNAMICS', '**harm': 'HARMONY', '**fing': 'FINGERING',
           '**mxhm': 'HARMONY'}
WORDS = ['la', 'le', 'Ky-', '-ri-', 'e', 'lei-son', 'Cañón', '日本', 'o, quote', '"q"', "'tis", "it's", 'a b', 'x,y',
         'ça', 'Ü', '"start', 'end"', '5', 'f', 'p', 'mf', 'I', 'V7', 'ii6', '1', '2 3', 'r', '4c', 'cresc.', 'C7/G',
         'ΑΩ', 'née', '„x“', 'a"b', ',', '"', "''", 'c4', 'M', 'k[', 'clefG2', '1/2', 'ri-', 'rit.', 'ri', 'rs', 're',
         'r4', '4r', '8rL', 'cresc', 'dim.', 'sf', 'fp', '4cL', 'q', 'qc',
         # characters str.splitlines() treats as line breaks; in a Humdrum cell they are ordinary text
         'la\u2028li', 'x\x0cy', 'q\x85', 'a\u2029', '\x1cz', 'o\x0bo', 'm\x1dn\x1e',
         # text that Unicode normalisation would rewrite (decomposed accents, singleton decompositions - among them
         # the Greek ano teleia, whose NFC form is the middle dot, and the Greek question mark, whose NFC form is ';')
         # characters for which str.isprintable() is false although they are ordinary text (no-break space, soft hyphen,
         # zero-width joiner, ideographic space)
         'Ah\u00a0!', 'Peu\u00adple', 'a\u200db', 'x\u3000y', '\u200c',
         'Sen\u0303or', 'e\u0301-', 'A\u030a', '\u212b', '\u039a\u03cd\u03c1\u03b9\u03b5\u0387', '\u03c4\u03af\u037e', '\u1f71']
_text_chars = st.characters(whitelist_categories=('Lu', 'Ll', 'Lt', 'Lm', 'Lo', 'Mn', 'Nd', 'Pc', 'Pd', 'Ps', 'Pe', 'Pi',
                                                  'Pf', 'Po', 'Sm', 'Sc', 'Sk', 'So'),
                            blacklist_characters='@\u00b7')


def _ok_text(s, core=True):
    return bool(s) and s[0] not in '=*.!' and s == s.strip() and '  ' not in s and '\t' not in s


@st.composite
def free_texts(draw, sep_chars=False):
    """printable text that is not structure: does not start with ! * = . ; single inner spaces"""
    x = draw(st.integers(0, 9))
    if x < 5:
        t = draw(st.sampled_from(WORDS))
    else:
        parts = draw(st.lists(st.text(_text_chars, min_size=1, max_size=6), min_size=1, max_size=3))
        t = ' '.join(parts)
    if sep_chars and draw(st.integers(0, 1)):
        i = draw(st.integers(0, len(t)))
        t = t[:i] + draw(st.sampled_from(['@', '·', '@@', '·x'])) + t[i:]
    if not _ok_text(t):
        t = 'a' + t.strip().replace('\t', '')
        t = ' '.join(t.split())
    return t


@st.composite
def other_data_cells(draw, typ, sep_chars=False):
    if draw(st.integers(0, 3)) == 0:
        return null_cell()
    if typ == '**root':
        n = draw(notes(acc=False, sigs=False, grace=False, optional_dur=False))
        n['acc'] = draw(st.sampled_from(['', '', '#', '-']))
        return note_cell_from([n], [[]])
    t = draw(free_texts(sep_chars=sep_chars))
    return {'k': 'text', 't': t, 'e': t, 'cat': OWN_CAT.get(typ, 'OTHER')}


@st.composite
def other_interps(draw, typ, supported_clefs_only=False):
    if typ == '**root':
        return draw(kern_interps(supported_clefs_only=supported_clefs_only))
    x = draw(st.integers(0, 7))
    if x in (0, 2):
        return draw(st.one_of(timesigs(), clefs(supported_only=supported_clefs_only), keysigs(), meters()))
    if x == 1:
        t = draw(st.sampled_from(['*staff1', '*staff2'] + BBOXES))
        return {'k': 'interp', 't': t, 'e': t, 'cat': 'BOUNDING_BOXES' if t.startswith('*xywh') else None}
    return nullinterp_cell()


@st.composite
def field_comments(draw, sep_chars=False):
    x = draw(st.integers(0, 5))
    if x == 0:
        t = '!'
    elif x < 4:
        t = draw(st.sampled_from(['!foo', '!LO:TX:a:t=dolce', '! a, "b"', '!ñ', '!"', '!*', '!=1', '!. .', '!4c']))
    else:
        body = draw(free_texts(sep_chars=sep_chars))
        t = '!' + body
    return {'k': 'lcomment', 't': t, 'e': t, 'cat': 'FIELD_COMMENTS'}


@st.composite
def global_comments(draw, sep_chars=False):
    x = draw(st.integers(0, 5))
    if x < 2:
        key = draw(st.sampled_from(['COM', 'OTL', 'OPR', 'ENC', 'voices', 'COM2']))
        # (the record body follows a blank or - as many encoders write it - a tab: a global comment is the whole line)
        t = '!!!' + key + draw(st.sampled_from([': ', ': ', ':\t', ': a\t'])) + draw(free_texts(sep_chars=sep_chars))
    elif x < 4:
        t = '!!' + draw(free_texts(sep_chars=sep_chars))
    elif x == 4:
        t = '!!!' + draw(st.sampled_from(['COM', 'OTL'])) + ':'
    else:
        t = draw(st.sampled_from(['!!', '!!!', '!! a', '!!!!SEGMENT: x.krn', '!!LO:LB:g=z']))
    return t.strip()
