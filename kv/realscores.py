"""The repository's own sample scores (test/resource_dir/**/*.krn) as a second source of inputs: real music has shapes
the synthetic generators do not think of (piano scores with dynamics between the staves, splits that stay open for pages,
lyrics, figured bass, editorial marks).  Only oracles that need no abstract description of the document are applied to
them (round trips, text-level validator, partition, output-vs-output relations).  The files belong to /repo's working
tree; a file that is missing or does not import cleanly is simply outside the domain."""
import glob
import os

from hypothesis import strategies as st

from . import common

ROOT = os.path.join(common.REPO, 'test', 'resource_dir')


def files(max_bytes=30000):
    out = []
    for f in sorted(glob.glob(os.path.join(ROOT, '**', '*.krn'), recursive=True)):
        rel = os.path.relpath(f, ROOT)
        try:
            size = os.path.getsize(f)
        except OSError:
            continue
        if rel.startswith(os.path.join('fragments', 'output')) or size == 0 or size > max_bytes:
            continue
        out.append(rel)
    return out


def path(rel):
    return os.path.join(ROOT, rel)


def cases(max_bytes=30000, nranges=8):
    """strategy: one file + raw integers from which measure ranges are derived once the number of measures is known"""
    fs = files(max_bytes)
    if not fs:
        return None
    return st.tuples(st.sampled_from(fs), st.lists(st.tuples(st.integers(0, 10 ** 6), st.integers(0, 3)), min_size=nranges, max_size=nranges),
                     st.booleans()).map(lambda t: {'real': t[0], 'raw': [list(x) for x in t[1]], 'by_ids': t[2]})


def ranges(case, M):
    out = []
    for x, w in case['raw']:
        a = 1 + x % M
        b = min(M, a + w)
        if (a, b) not in out:
            out.append((a, b))
    for r in ((1, 1), (M, M), (1, M)):
        if r not in out:
            out.append(r)
    return out


def measure_lines(lines):
    """text-level measure model of an export: -> list of line indexes at which measures start (barline lines, plus the first
    data line when data precede the first barline)"""
    starts = [i for i, l in enumerate(lines) if l.split('\t')[0].startswith('=')]
    first_data = next((i for i, l in enumerate(lines) if l and l[0] not in '*!=' ), None)
    if first_data is not None and (not starts or first_data < starts[0]):
        starts = [first_data] + starts
    return starts
