"""Shared runner machinery: seeds, outcome classification, known findings, evidence, replay files.

Nothing in here knows about a particular property.  A property module (kv/props/cXX.py) exposes

    ID, RULE, LEVEL_NOTE (strings)
    run(ctx)            drive generators / enumerations, calling ctx.evaluate(case, check) for every case
    replay(case)        re-run one saved case outside every generator, returns a Result
    FINDINGS            {finding_id: predicate(case, problem) -> bool}   (optional)

`check(case)` returns a Result (or raises Bad / any exception, see classify_exception).
"""
from __future__ import annotations

import collections
import hashlib
import json
import os
import sys
import time
import traceback

VERIF = os.path.dirname(os.path.dirname(os.path.abspath(__file__)))
REPO = os.path.abspath(os.environ.get('KV_REPO', '/repo'))
# evidence/ and replays/ live under /verif; the mutant harness (KV_REPO set) redirects them so that it never
# overwrites evidence of the real tree
OUT = os.path.abspath(os.environ.get('KV_OUT', VERIF if 'KV_REPO' not in os.environ else '/tmp/kv_out'))


def verif_seed() -> int:
    try:
        return int(os.environ.get('VERIF_SEED', '1'))
    except ValueError:
        return 1


def jdump(obj) -> str:
    return json.dumps(obj, sort_keys=True, ensure_ascii=False, default=repr)


def sha(obj) -> str:
    return hashlib.sha1(jdump(obj).encode('utf-8', 'surrogatepass')).hexdigest()


class Bad(Exception):
    """Raised by an oracle: the property is violated for this case.  sig is a short stable key that says *which
    clause* failed and how (used by the known-findings classifiers), detail is for humans."""

    def __init__(self, sig: str, detail: str = '', **data):
        super().__init__(f'{sig}: {detail}')
        self.sig = sig
        self.detail = detail
        self.data = data


class Problem:
    def __init__(self, sig, detail='', data=None):
        self.sig = sig
        self.detail = detail
        self.data = data or {}

    def to_json(self):
        return {'sig': self.sig, 'detail': self.detail[:2000], 'data': self.data}


class Result:
    """Outcome of one oracle execution."""

    def __init__(self, problems=None, nontrivial=False, classes=(), sample=None, evals=1, key=None):
        self.problems = list(problems or [])
        self.nontrivial = nontrivial
        self.classes = list(classes)
        self.sample = sample
        self.evals = evals
        self.key = key  # what makes the case distinct (defaults to the case itself)


class HarnessError(Exception):
    pass


def _frames(tb):
    out = []
    while tb is not None:
        out.append(tb.tb_frame.f_code.co_filename)
        tb = tb.tb_next
    return out


def classify_exception(exc: BaseException):
    """An exception escaped from an oracle.  If the innermost frame that belongs either to the code under test or to
    the harness is in the code under test, it is behaviour of kernpy (a Problem: the property says the call must not
    raise there, otherwise the oracle would have caught it); if it is in the harness it is a harness error."""
    if isinstance(exc, Bad):
        return Problem(exc.sig, exc.detail, exc.data)
    files = _frames(exc.__traceback__)
    for f in reversed(files):
        af = os.path.abspath(f)
        if af.startswith(REPO + os.sep):
            where = os.path.relpath(af, REPO)
            return Problem(f'raised:{type(exc).__name__}', f'{type(exc).__name__}: {exc} (in {where})',
                           {'traceback': traceback.format_exception(type(exc), exc, exc.__traceback__)[-6:]})
        if af.startswith(VERIF + os.sep):
            return None
    return None


def guarded(check, case):
    """Run check(case); convert Bad / kernpy exceptions into a Result with one problem."""
    try:
        res = check(case)
        if res is None:
            res = Result()
        return res
    except Exception as exc:  # noqa
        p = classify_exception(exc)
        if p is None:
            raise HarnessError(''.join(traceback.format_exception(type(exc), exc, exc.__traceback__))) from exc
        r = getattr(exc, 'result', None) or Result()
        r.problems.append(p)
        return r


class Recorder:
    """Counts what a run covered.  Mergeable across processes through to_dict()/merge()."""

    MAX_SAMPLES = 8

    def __init__(self):
        self.evaluations = 0
        self.nontrivial = set()
        self.classes = collections.Counter()
        self.samples = []
        self.known = collections.Counter()
        self.known_example = {}
        self.excluded = collections.Counter()
        self.violations = []  # list of {'case':..., 'problems':[...]}
        self.notes = {}
        self.harness_errors = []
        self.exhaustive = None

    def to_dict(self):
        return {'evaluations': self.evaluations, 'nontrivial': sorted(self.nontrivial), 'classes': dict(self.classes),
                'samples': self.samples, 'known': dict(self.known), 'known_example': self.known_example,
                'excluded': dict(self.excluded), 'violations': self.violations, 'notes': self.notes,
                'harness_errors': self.harness_errors, 'exhaustive': self.exhaustive}

    def merge(self, d):
        self.evaluations += d['evaluations']
        self.nontrivial.update(d['nontrivial'])
        self.classes.update(d['classes'])
        for s in d['samples']:
            if len(self.samples) < self.MAX_SAMPLES and s not in self.samples:
                self.samples.append(s)
        self.known.update(d['known'])
        for k, v in d['known_example'].items():
            self.known_example.setdefault(k, v)
        self.excluded.update(d['excluded'])
        self.violations.extend(d['violations'])
        for k, v in d['notes'].items():
            if isinstance(v, (int, float)) and isinstance(self.notes.get(k), (int, float)):
                self.notes[k] += v
            else:
                self.notes.setdefault(k, v)
        self.harness_errors.extend(d['harness_errors'])
        if d['exhaustive'] is not None:
            self.exhaustive = d['exhaustive'] if self.exhaustive is None else (self.exhaustive and d['exhaustive'])


class Ctx:
    """What a property module's run() receives."""

    def __init__(self, pid, tier, seed, shard=0, nshards=1, findings=None, open_findings=()):
        self.pid = pid
        self.tier = tier
        self.seed = seed
        self.shard = shard
        self.nshards = nshards
        self.rec = Recorder()
        self.findings = findings or {}
        self.open_findings = set(open_findings)
        self._sample_next = 1
        self._n_nontrivial_seen = 0

    @property
    def quick(self):
        return self.tier == 'quick'

    def shard_seed(self, salt=0):
        return (self.seed * 1000003 + self.shard * 7919 + salt) % (2 ** 63)

    def in_fresh_interpreter(self, case):
        """Re-execute a failing case in a NEW interpreter (run.py --replay).  Used when a failure found during the
        search does not reproduce in this process: state that is global to the interpreter (class-level caches in the
        code under test) may have been changed by earlier cases, so only a fresh process gives a definite answer.
        Returns the list of problems reported there ([] when the property holds on the case in a fresh process)."""
        import subprocess
        import tempfile
        with tempfile.TemporaryDirectory(prefix='kv_fresh_') as td:
            path = os.path.join(td, 'case.json')
            with open(path, 'w', encoding='utf-8') as f:
                json.dump({'property': self.pid, 'case': case}, f)
            r = subprocess.run([sys.executable, os.path.join(VERIF, 'run.py'), self.pid, '--replay', path], capture_output=True,
                               text=True, env=dict(os.environ, PYTHONHASHSEED='0'), timeout=900)
        if r.returncode == 2:
            raise HarnessError('replay in a fresh interpreter failed:\n' + r.stderr[-2000:])
        probs = []
        for line in r.stdout.split('\n'):
            if line.startswith('  problem '):
                sig, _, detail = line[len('  problem '):].partition(': ')
                probs.append(Problem(sig, detail + ' [reproduced in a fresh interpreter only: depends on interpreter-global state]', {}))
        if r.returncode == 1 and not probs:
            probs.append(Problem('fresh-interpreter', r.stdout[-600:], {}))
        return probs if r.returncode == 1 else []

    # ---- the one entry every case goes through -------------------------------------------------
    def evaluate(self, case, check, count=True):
        """Run the oracle on one case.  Returns the list of problems that are NOT covered by an open known finding
        (empty list = fine).  Known findings are counted and do not stop anything."""
        res = guarded(check, case)
        unmatched = []
        for p in res.problems:
            fid = self._match_finding(case, p)
            if fid is None:
                unmatched.append(p)
            elif count:
                self.rec.known[fid] += 1
                self.rec.known_example.setdefault(fid, {'sig': p.sig, 'detail': p.detail[:600]})
        if count:
            self.rec.evaluations += res.evals
            for c in res.classes:
                self.rec.classes[c] += 1
            if res.nontrivial:
                keys = getattr(res, 'keys', None)
                if keys is None:
                    keys = [res.key if res.key is not None else case]
                fresh = False
                for k in keys:
                    h = sha(k)
                    if h not in self.rec.nontrivial:
                        self.rec.nontrivial.add(h)
                        fresh = True
                if fresh:
                    self._n_nontrivial_seen += 1
                    if self._n_nontrivial_seen >= self._sample_next and len(self.rec.samples) < Recorder.MAX_SAMPLES:
                        self.rec.samples.append(res.sample if res.sample is not None else case)
                        self._sample_next *= 3
        return unmatched

    def _match_finding(self, case, problem):
        for fid, pred in self.findings.items():
            if fid in self.open_findings:
                try:
                    if pred(case, problem):
                        return fid
                except Exception:  # a classifier must never hide a violation by crashing
                    continue
        return None

    @staticmethod
    def _observed_only(problems, label):
        """an oracle verdict against the real code that was observed during the search but does not come back when the
        same case is executed again (here, and alone in a fresh interpreter): the harness is deterministic, so the outcome
        depends on state outside the case - memory addresses, process-wide counters, what earlier cases left behind.  The
        observation is reported as what it is, a violation that was seen, with that remark."""
        note = (' [observed during the search' + (f' ({label})' if label else '') + '; the same case executed again - in this process and alone in a fresh '
                'interpreter - did not show it: the outcome depends on state outside the case (memory addresses, process-wide counters, earlier calls)]')
        out = []
        for p in (problems or [Problem('not-reproducible', 'a failure was observed during the search', {})]):
            out.append(Problem(p.sig, p.detail + note, dict(p.data, reproduced=False)))
        return out

    def violation(self, case, problems):
        self.rec.violations.append({'case': case, 'problems': [p.to_json() for p in problems]})

    def check_all(self, cases, check, max_violations=5):
        """Enumerations: evaluate every case, keep going after violations (root causes are bucketed by sig)."""
        seen_sigs = set()
        for case in cases:
            un = self.evaluate(case, check)
            if un:
                key = un[0].sig
                if key not in seen_sigs and len(seen_sigs) < max_violations:
                    seen_sigs.add(key)
                    self.violation(case, un)
                else:
                    self.rec.notes['further_violating_cases'] = self.rec.notes.get('further_violating_cases', 0) + 1

    # ---- Hypothesis driver ----------------------------------------------------------------------
    def run_hypothesis(self, strategy, check, max_examples, salt=0, shrink_budget_s=None, label=''):
        """Generated search.  Collect-then-continue for known findings; on an unknown problem let Hypothesis shrink
        within a wall-clock budget (the budget only affects the size of the replay, never the verdict), then
        re-execute the smallest failing case seen outside Hypothesis."""
        import hypothesis
        from hypothesis import given, settings, HealthCheck, Phase

        if shrink_budget_s is None:
            shrink_budget_s = 20 if self.quick else 90
        st = {'first_fail': None, 'best': None, 'best_size': None, 'harness': None, 'stop': False}
        ctx = self

        @hypothesis.seed(self.shard_seed(salt))
        @settings(max_examples=max_examples, database=None, deadline=None, report_multiple_bugs=False,
                  derandomize=False, suppress_health_check=list(HealthCheck), print_blob=False,
                  phases=(Phase.generate, Phase.shrink), verbosity=hypothesis.Verbosity.quiet)
        @given(strategy)
        def prop(case):
            if st['stop']:
                return
            if st['first_fail'] is not None and time.time() - st['first_fail'] > shrink_budget_s:
                st['stop'] = True
                return
            try:
                un = ctx.evaluate(case, check, count=st['first_fail'] is None)
            except HarnessError as he:
                st['harness'] = str(he)
                st['stop'] = True
                return
            if un:
                if st['first_fail'] is None:
                    st['first_fail'] = time.time()
                size = len(jdump(case))
                if st['best_size'] is None or size < st['best_size']:
                    st['best'], st['best_size'], st['best_problems'] = case, size, un
                raise AssertionError(un[0].sig)

        try:
            prop()
        except BaseException as exc:  # whatever Hypothesis makes of it; the tracked case decides
            if isinstance(exc, (KeyboardInterrupt, SystemExit)):
                raise
        if st['harness']:
            self.rec.harness_errors.append(st['harness'])
            return
        if st['best'] is not None:
            case = st['best']
            try:
                un = self.evaluate(case, check, count=False)
            except HarnessError as he:
                self.rec.harness_errors.append(str(he))
                return
            if not un:
                try:
                    un = self.in_fresh_interpreter(case)
                except HarnessError as he:
                    self.rec.harness_errors.append(str(he))
                    return
            if un:
                self.violation(case, un)
            else:
                self.violation(case, self._observed_only(st.get('best_problems'), label))


    # ---- Hypothesis stateful driver --------------------------------------------------------------
    def run_machine(self, machine_cls, check, max_examples, step_count, salt=0, shrink_budget_s=None, label=''):
        """Histories: a RuleBasedStateMachine generates and shrinks call sequences.  The machine records its history,
        reports a failing history through KV['fail'] (and raises), and reports every finished history through
        KV['count'] in teardown().  `check(case)` is the plain (generator-free) executor of a recorded history: it is
        used to count/classify finished histories and to re-execute the smallest failing one outside Hypothesis."""
        import hypothesis
        from hypothesis import settings, HealthCheck, Phase
        from hypothesis.stateful import run_state_machine_as_test

        if shrink_budget_s is None:
            shrink_budget_s = 20 if self.quick else 90
        st = {'first_fail': None, 'best': None, 'best_size': None, 'harness': None}
        ctx = self

        def stop():
            return st['harness'] is not None or (st['first_fail'] is not None and time.time() - st['first_fail'] > shrink_budget_s)

        def fail(case, observed=None):
            # observed: the Bad the machine caught (or a (sig, detail) pair) - kept in case the history does not reproduce
            if st['first_fail'] is None:
                st['first_fail'] = time.time()
            size = len(jdump(case))
            if st['best_size'] is None or size < st['best_size']:
                st['best'], st['best_size'] = case, size
                if isinstance(observed, Bad):
                    st['best_problems'] = [Problem(observed.sig, observed.detail, dict(getattr(observed, 'data', {}) or {}))]
                elif observed:
                    st['best_problems'] = [Problem(observed[0], observed[1], {})]
                else:
                    st['best_problems'] = None

        def count(case, result=None):
            # result: the Result the machine computed while running (saves re-executing the history)
            if st['first_fail'] is not None or st['harness'] is not None:
                return
            try:
                ctx.evaluate(case, check if result is None else (lambda c: result))
            except HarnessError as he:
                st['harness'] = str(he)

        M = type(machine_cls.__name__ + 'Run', (machine_cls,), {})
        M.KV = {'stop': stop, 'fail': fail, 'count': count}
        sett = settings(max_examples=max_examples, stateful_step_count=step_count, database=None, deadline=None,
                        report_multiple_bugs=False, derandomize=False, suppress_health_check=list(HealthCheck),
                        print_blob=False, phases=(Phase.generate, Phase.shrink), verbosity=hypothesis.Verbosity.quiet)
        try:
            run_state_machine_as_test(hypothesis.seed(self.shard_seed(salt))(M), settings=sett)
        except BaseException as exc:
            if isinstance(exc, (KeyboardInterrupt, SystemExit)):
                raise
            if st['best'] is None and st['harness'] is None:
                # an exception that is not a recorded property failure: the machine itself is broken
                st['harness'] = ''.join(traceback.format_exception(type(exc), exc, exc.__traceback__))[-3000:]
        if st['harness']:
            self.rec.harness_errors.append(st['harness'])
            return
        if st['best'] is not None:
            case = st['best']
            try:
                un = self.evaluate(case, check, count=False)
            except HarnessError as he:
                self.rec.harness_errors.append(str(he))
                return
            if not un:
                try:
                    un = self.in_fresh_interpreter(case)
                except HarnessError as he:
                    self.rec.harness_errors.append(str(he))
                    return
            if un:
                self.violation(case, un)
            else:
                self.violation(case, self._observed_only(st.get('best_problems'), label))


# ------------------------------------------------------------------------------------------------
def load_known_findings():
    path = os.path.join(VERIF, 'known_findings.json')
    if not os.path.exists(path):
        return []
    with open(path, encoding='utf-8') as f:
        return json.load(f)['findings']


def write_replay(pid, violation, tier, seed):
    d = os.path.join(OUT, 'replays')
    os.makedirs(d, exist_ok=True)
    h = sha(violation['case'])[:12]
    path = os.path.join(d, f'{pid}-{h}.json')
    with open(path, 'w', encoding='utf-8') as f:
        json.dump({'property': pid, 'tier': tier, 'seed': seed, 'case': violation['case'],
                   'problems': violation['problems']}, f, indent=1, ensure_ascii=False, default=repr)
    return path


def write_evidence(pid, tier, seed, rec: Recorder, rule, assumptions, wall_s, nviol, level='exploration', extra=None):
    d = os.path.join(OUT, 'evidence')
    os.makedirs(d, exist_ok=True)
    cov = {
        'evaluations': rec.evaluations,
        'distinct_nontrivial': len(rec.nontrivial),
        'rule': rule,
        'samples': rec.samples[:Recorder.MAX_SAMPLES] or ['(no non-trivial case was produced)'],
        'classes': dict(sorted(rec.classes.items())),
        'known_findings': dict(sorted(rec.known.items())),
        'known_finding_examples': rec.known_example,
        'excluded': dict(sorted(rec.excluded.items())),
    }
    if rec.exhaustive is not None:
        cov['exhaustive'] = bool(rec.exhaustive)
    cov.update(rec.notes)
    if extra:
        cov.update(extra)
    ev = {'property_id': pid, 'tier': tier, 'seed': seed, 'level': level, 'coverage': cov,
          'assumptions': assumptions, 'wall_s': round(wall_s, 2), 'violations': nviol}
    path = os.path.join(d, f'{pid}.json')
    tmp = path + '.tmp'
    with open(tmp, 'w', encoding='utf-8') as f:
        json.dump(ev, f, indent=1, ensure_ascii=False, default=repr)
    os.replace(tmp, path)
    return path
