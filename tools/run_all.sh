#!/bin/bash
# tools/run_all.sh <tier> <seed> [jobs]   - development helper: run every registered check, print one line each
cd "$(dirname "$0")/.." || exit 2
tier=${1:-quick}; seed=${2:-1}; jobs=${3:-4}
out=/tmp/kv_runall/$tier-$seed; mkdir -p $out
export KV_OUT=${KV_OUT:-/tmp/kv_runall/out-$tier-$seed}
ls kv/props/c*.py | sed 's/.*\/c\([0-9]*\).py/C\1/' | xargs -P $jobs -I{} sh -c "VERIF_SEED=$seed ./check {} --tier $tier > $out/{}.log 2>&1; echo \"{} exit=\$? \$(grep -c '^KNOWN' $out/{}.log) known  \$(grep -E '^C[0-9]+ (quick|thorough)' $out/{}.log | sed 's/.*evaluations/evaluations/')\""
