#!/usr/bin/env python3
"""Run the repository's pinned suite and compare with /root/.vp/BASELINE.json (stable_pass).
usage: tools/pinned.py [repo_dir]   -> exit 0 iff every stable_pass test passes."""
import json, os, subprocess, sys, tempfile, xml.etree.ElementTree as ET
repo = sys.argv[1] if len(sys.argv) > 1 else '/repo'
base = json.load(open('/root/.vp/BASELINE.json'))
want = set(base['stable_pass'])
with tempfile.TemporaryDirectory() as td:
    xmlp = os.path.join(td, 'r.xml')
    env = dict(os.environ, PYTHONDONTWRITEBYTECODE='1', PYTHONPATH=repo)
    subprocess.run(['/venv/bin/python', '-m', 'pytest', '-q', '-p', 'no:cacheprovider', '--timeout=900',
                    '--continue-on-collection-errors', '--junitxml=' + xmlp], cwd=repo, env=env,
                   stdout=subprocess.DEVNULL, stderr=subprocess.DEVNULL)
    root = ET.parse(xmlp).getroot()
passed = set()
allc = 0
for tc in root.iter('testcase'):
    allc += 1
    name = tc.get('classname') + '::' + tc.get('name')
    if not any(ch.tag in ('failure', 'error', 'skipped') for ch in tc):
        passed.add(name)
missing = sorted(want - passed)
print(f'pinned: {len(want)} expected, {len(want & passed)} of them pass; {len(passed)} pass in total of {allc}')
for m in missing[:20]:
    print('  NOT PASSING:', m)
sys.exit(1 if missing else 0)
