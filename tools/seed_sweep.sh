#!/bin/bash
# tools/seed_sweep.sh [jobs] - re-confirm every stored seeded change against the CURRENT /repo tree and re-run the quick
# tier of the check of its property; verdicts are written back to seeded/<name>/meta.json (development helper)
cd "$(dirname "$0")/.." || exit 2
ls seeded | xargs -P ${1:-3} -I{} sh -c "python3 tools/seed_eval.py seeded/{} {} --keep 2>&1 | cut -c1-220"
