#!/usr/bin/env python3
"""Sensitivity harness (development tool, not registered in MANIFEST).

  tools/mutants.py <patch.diff | revert:<commit>> <Cxx> [<Cxx> ...] [--pinned] [--tier quick] [--seed N]

Copies /repo's working tree to a scratch directory under /tmp, applies the patch there (or reverts one commit), optionally
runs the pinned suite on the copy, runs the named checks with KV_REPO pointing at the copy (evidence/replays go to
/tmp/kv_out), prints one line per check and removes the copy.
"""
import os, shutil, subprocess, sys, tempfile

def main():
    args = [a for a in sys.argv[1:] if not a.startswith('--')]
    flags = [a for a in sys.argv[1:] if a.startswith('--')]
    patch, props = args[0], args[1:]
    tier = 'quick'
    seed = '1'
    for i, f in enumerate(sys.argv):
        if f == '--tier': tier = sys.argv[i + 1]
        if f == '--seed': seed = sys.argv[i + 1]
    props = [p for p in props if p not in (tier, seed)]
    tmp = tempfile.mkdtemp(prefix='kv_mut_')
    try:
        subprocess.check_call(['rsync', '-a', '--exclude', '.git', '--exclude', '__pycache__', '/repo/', tmp + '/'])
        if patch.startswith('revert:'):
            diff = subprocess.check_output(['git', '-C', '/repo', 'show', patch[7:], '--format='])
            p = subprocess.run(['patch', '-R', '-p1', '-s', '-d', tmp], input=diff)
        else:
            p = subprocess.run(['patch', '-p1', '-s', '-d', tmp], input=open(patch, 'rb').read())
        if p.returncode != 0:
            print('PATCH FAILED'); return 2
        if '--pinned' in flags:
            r = subprocess.run([sys.executable, os.path.join(os.path.dirname(__file__), 'pinned.py'), tmp], capture_output=True, text=True)
            print('pinned suite on mutant:', r.stdout.strip().split('\n')[0], '(exit %d)' % r.returncode)
        env = dict(os.environ, KV_REPO=tmp, KV_OUT='/tmp/kv_out', VERIF_SEED=seed)
        rc = 0
        for pid in props:
            r = subprocess.run(['/verif/check', pid, '--tier', tier], env=env, capture_output=True, text=True)
            lines = [l for l in r.stdout.split('\n') if l.startswith('VIOLATION') or l.startswith('  problem')]
            verdict = {0: 'SURVIVED', 1: 'KILLED', 2: 'HARNESS-ERROR'}.get(r.returncode, str(r.returncode))
            if r.returncode == 1 and not any(l.startswith('VIOLATION') for l in lines): verdict = 'HARNESS-ERROR'; print(r.stderr[-800:])
            print(f'{os.path.basename(patch)} {pid}: {verdict} ' + (lines[0][:160] if lines else ''))
            if r.returncode == 2:
                print(r.stderr[-1500:])
            if r.returncode != 1: rc = 1
        return rc
    finally:
        shutil.rmtree(tmp, ignore_errors=True)
sys.exit(main())
