#!/usr/bin/env python3
"""Regenerates MANIFEST.json from the table below (kept in one place so that it is always schema-valid)."""
import json, os
HERE = os.path.dirname(os.path.dirname(os.path.abspath(__file__)))
SETUP = ('/venv/bin/python -c "import hypothesis" 2>/dev/null || /venv/bin/pip install -q --no-index '
         '--find-links /opt/veriftools/wheels hypothesis')
CHECKS = {
 'C14': dict(technique='Hypothesis RuleBasedStateMachine over read-only call histories (<=12 steps) with deep-snapshot, constant and fresh-import invariants after every step; call sequences replayed forwards/backwards in fresh interpreters',
             text='A stateful machine applies drawn read-only operations with arbitrary options to one Document and checks after every step that the document, module constants and caller-owned arguments are unchanged and that the result equals the same call on a fresh import; interpreter-global state is probed by executing drawn sequences in two fresh processes in opposite orders.',
             note='Trusted: kv/snapshot.py sees all Python-level state of the tree. Mutation that never changes an attribute or a result is invisible.', ref='4 C14'),
 'C15': dict(technique='Hypothesis-generated documents x drawn interval/direction; C09 model applied to the generator\'s abstract notes, grid conservation on the eKern export, before/after export of the source, inverse law',
             text='The transposed document is compared sub-part by sub-part with the source; pitches against the independent interval model; the three classes the property designates (accidentals, chords, state of the source) are explored and tracked as findings by exact symptom.',
             note='Trusted: kv/pitch.py (validated against kernpy.transpose by C09). **root spines are not generated.', ref='4 C15'),
 'C18': dict(technique='Hypothesis-generated token sequences per spine type (grammar-labelled structural corpus, kern non-structural tokens, free text, arbitrary strings, malformed tokens) with label-based expectations + differential against the **kern importer and a fresh importer; documents re-headed under two types',
             text='Every token is imported by a long-lived importer of each non-kern type and compared with the labelled expectation, with a fresh importer and with the kern importer; whole documents are presented under two different headers and must give the same measure index and structure.',
             note='Trusted: corpus labels from the grammar; own categories from the importers\' documentation (for **mxhm HARMONY or MHXM).', ref='4 C18'),
 'C19': dict(technique='Hypothesis-generated scores cut at every set of barline positions (exhaustive per document in the thorough tier) x 3 separator conventions; equality with the import of the joined text, pair arithmetic, C07 data-line oracle per pair',
             text='Every cut of every generated score is concatenated and compared with the import of the joined text (deep snapshot and six exports); the returned pairs must be consecutive, end at the measure count and each address exactly its fragment.',
             note='Trusted: kv/measures.py. Scores without any measure are concatenated as a single fragment only.', ref='4 C19'),
 'C20': dict(technique='Hypothesis-generated documents, renderings (LF/CRLF, final newline, non-ASCII, damaged cells), option sets and directory trees driven through a temporary directory; file path vs in-memory API and CLI (in-process + real subprocess) vs API differential, ekern/kern round trip',
             text='load vs loads (deep snapshot, errors, exports), dump vs dumps byte-exact with repeated dumps to one path, CLI converters vs the API for single files and directory trees with/without -r, and the kern->ekern->kern->ekern round trip.',
             note='Trusted: UTF-8 locale; the in-process CLI driver calls the same main() as python -m kernpy (a few real subprocess runs per check).', ref='4 C20'),
 'C07': dict(technique='Hypothesis-generated measure-structured scores x every (a,b) range + illegal shapes; measure model from barline rows, partition oracle, ValueError contract',
             text='All ranges of every generated score are exported and their data lines compared with the lines of the full export that the barline model assigns to the range; partition, iteration and the three rejection clauses are checked per document.',
             note='Trusted: kv/measures.py boundaries. kernpy\'s alternative numbering (an all-null stretch before the first barline counted as measure 1) is accepted and labelled. Bounded random search.', ref='4 C07'),
 'C08': dict(technique='Hypothesis-generated scores x every range; independent Humdrum well-formedness validator, re-import, text-level signature tracker on source vs excerpt',
             text='Every excerpt of every generated score must pass an independent syntax validator, re-import cleanly and give every note the same governing clef/key/time/meter as the full score. The three classes the property designates (mid-score and late signatures, ranges that start inside a split, non-kern spines) are explored in separate profiles; the defects found there were repaired (F13, F16-F20), so every clause is enforced in every profile.',
             note='Trusted: kv/humdrum.py. Core = signatures before measure 1, same kinds on every spine, splits re-joined before the next barline (nested and multi-way joins included).', ref='4 C08'),
 'C10': dict(technique='exhaustive grid (11,025 calls + one-note documents) + Hypothesis documents with clef changes in sub-spines; diatonic translation model and clef-in-force from the spine-path model',
             text='The whole pitch x clef grid is enumerated against the translation model and laws that do not depend on the bottom-line constant; documents check that each note is converted under the clef the path model says governs it and that nothing else differs from the kern export.',
             note='Trusted: kv/pitch.py; Clef.bottom_line() is read from kernpy (a consistent change of that constant is invisible, see DESIGN 6).', ref='4 C10'),
 'C12': dict(technique='Hypothesis-generated documents with 1-4 damaged cells, differential against the undamaged import; Hypothesis RuleBasedStateMachine over importer call histories vs fresh importers',
             text='Damaged documents must import, report exactly the damaged kern cells once with line numbers, leave all other tokens identical to the undamaged import and export damaged cells verbatim; a stateful machine checks that a long-lived importer answers every token like a fresh one.',
             note='Trusted: malformed corpus labels (strict texts are rejected by a fresh importer on this tree). "token+garbage" silently truncated is a known finding recognised by its exact symptom.', ref='4 C12'),
 'C13': dict(technique='Hypothesis-generated documents x drawn option products; composition of the three single-option model transformations in all six orders; explicit-default vs omitted; reused Exporter object',
             text='Each drawn combination of spine selection, category selection and encoding must equal the composition of the independently validated single-option transformations, and each option alone its own transformation.',
             note='Trusted: kv/xform.py as validated by C04-C06/C10. Bounded random search over the option product.', ref='4 C13'),
 'C17': dict(technique='Hypothesis-generated documents with global comments; expected listing from the spine-path model, closure from the README tree, internal consistency of unique/frequency/comment queries',
             text='The token listing, all 37 single-category filters plus drawn sets, unique listings, frequencies, comment queries and the monophony predicate are compared with values computed from the abstract document.',
             note='Trusted: kv/spine.py DFS order, kv/cats.py. Bounded random search.', ref='4 C17'),
 'C01': dict(technique='Hypothesis-generated documents, round-trip fixed point (kern and eKern) + metamorphic equality of two renderings of the same abstract notes',
             text='Generated well-formed documents over the whole supported grammar are exported, re-imported and re-exported (plain and extended form), and a second writing of the same notes with signifiers moved/permuted/repeated must export identically. Bounded random search with shrinking; no absence claim beyond the explored sizes.',
             note='Trusted: the generator only produces documents inside the quantifier (checked: they import without errors). Sizes bounded (<=4 spines, <=3 sub-spines, ~25 rows). Explored class chord+rest+foreign signifier is a known finding.', ref='4 C01'),
 'C02': dict(technique='exhaustive enumeration of spine-operator layouts to bounded depth + Hypothesis documents, against an independent spine-path reference model',
             text='Every legal operator layout to depth 2 (quick) / 3 (thorough, 117,845 documents) over three header mixes is imported and the tree compared node by node with the model; random documents add comments, blank lines, CRLF, csv-special literals and surplus-cell lines.',
             note='Trusted: kv/spine.py. Layouts deeper than the stated depth and wider than 5 paths are only sampled.', ref='4 C02'),
 'C03': dict(technique='Hypothesis-generated documents; oracle = the generator\'s abstract description of each cell vs a lexical atom parse of the export',
             text='The generator knows what every cell means before kernpy sees it; the exported grid must have the same shape and every cell the same content (order-insensitive inside a note).',
             note='Trusted: kv/grammar.py descriptors and the atom lexer. Bounded random search.', ref='4 C03'),
 'C04': dict(technique='Hypothesis-generated documents x selections; output-vs-output relations between the six exports + model transformation T over the aligned eKern grid',
             text='Relations between kernpy\'s own six outputs (strip, per-member decoration cut, shape, headers) and an independent encoding transformation, on generated documents with and without category selections.',
             note='Trusted: kv/xform.py; Clef.bottom_line() read from kernpy. Bounded random search.', ref='4 C04'),
 'C05': dict(technique='Hypothesis-generated documents x 125 selections each (all single includes/excludes, rotating single/single pairs, drawn larger sets); metamorphic oracle over the unfiltered eKern export',
             text='The filtered export is recomputed from the unfiltered one with an independent category tree and a lexical sub-part classifier and compared cell by cell.',
             note='Trusted: kv/cats.py, kv/xform.py F. Placeholders "." and "*" are interchangeable. Bounded random search.', ref='4 C05'),
 'C06': dict(technique='Hypothesis-generated documents x every subset of spine ids and of spine types; projection computed from the spine-path model',
             text='All 2^n id subsets and all type subsets per generated document are exported and compared with the column projection of the full export.',
             note='Trusted: kv/spine.py column tracking. Bounded random search over documents; subsets exhaustive per document.', ref='4 C06'),
 'C09': dict(technique='exhaustive enumeration of the 25,200-case grid against an independent interval model (differential oracle)',
             text='Every case of the property\'s finite quantifier (7x5x9x40x2) is executed in both tiers and compared with a letter/semitone model written from music theory, plus inverse/unison/octave/P4+P5 laws; for this grid the answer is complete, not sampled.',
             note='Trusted: kv/pitch.py. Results that need more than two accidentals are unconstrained. The grid is run through the Humdrum spelling and through the American notation of argument and / or result (input_format / output_format of kernpy.transpose); one open known finding there (KF-C09-AMSHARP).', ref='4 C09'),
 'C11': dict(technique='exhaustive enumeration (37, 37^2, 705^2 include/exclude pairs, x37 match) + Hypothesis-generated larger sets against a hand-transcribed README tree',
             text='All categories, all ordered pairs and all include/exclude pairs of size <=2 are enumerated (match() on all of them in the thorough tier, 1/16 in quick); larger sets and argument shapes are generated by Hypothesis.',
             note='Trusted: kv/cats.py is the README tree. Larger sets are sampled, not enumerated.', ref='4 C11'),
 'C16': dict(technique='exhaustive enumeration of the 539 spellings, round-trip + before/after object comparison',
             text='The whole grid of the quantifier (7x7x11) in both directions, each exported twice from the same object, with fresh and shared codec instances.',
             note='Trusted: kv/pitch.py spelling rule.', ref='4 C16'),
}
NOT_YET = {}
def main():
    props = [json.loads(l) for l in open(os.path.join(HERE, 'properties.jsonl'))]
    checks, na = [], []
    for p in props:
        pid = p['id']
        if pid in CHECKS:
            c = CHECKS[pid]
            checks.append({
                'property_id': pid,
                'quick_cmd': f'./check {pid} --tier quick',
                'thorough_cmd': f'./check {pid} --tier thorough',
                'evidence_file': f'/verif/evidence/{pid}.json',
                'replay_cmd_template': f'./check {pid} --replay {{path}}',
                'engine': 'kv',
                'level_claimed': {'category': 'exploration', 'text': c['text'], 'design_ref': 'DESIGN.md section ' + c['ref']},
                'level_note': c['note'],
                'technique': c['technique'],
            })
        else:
            na.append({'property_id': pid, 'reason': NOT_YET.get(pid, 'check not built yet in this round (property-based check designed in DESIGN.md section 4; it is applicable, only unfinished)')})
    m = {
        'version': 1,
        'setup_cmd': SETUP,
        'hooks': {'guard': 'KERNPY_VERIF', 'enable': 'no hooks are needed: every check imports /repo\'s working tree directly (PYTHONPATH=/repo) and observes through the public API and object attributes',
                  'baseline_off_cmd': 'cd /repo && /venv/bin/python -m pytest -ra -q -p no:cacheprovider --timeout=900 --continue-on-collection-errors',
                  'source_commits': [], 'add_only': True},
        'engines': [{'name': 'kv', 'path': '/verif/kv', 'serves_properties': sorted(CHECKS),
                     'kind_free_text': 'Hypothesis 6.168 property-based testing (generated documents, option sets and operation histories with shrinking) plus exhaustive enumeration of the finite grids, all against independent reference models; run.py shards over 16 processes in the thorough tier'}],
        'checks': checks,
        'notes': 'Known findings: /verif/known_findings.json (fixed entries name the fix: commit in /repo). Replay files are written to /verif/replays/.',
    }
    if na:
        m['not_applicable'] = na
    json.dump(m, open(os.path.join(HERE, 'MANIFEST.json'), 'w'), indent=1)
if __name__ == '__main__':
    main()
