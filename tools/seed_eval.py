#!/usr/bin/env python3
"""Development tool: confirm a seeded change and run checks against it.

  tools/seed_eval.py <dir with patch.diff demo.py meta.json> <name> [Cxx ...] [--tier quick|thorough] [--keep]

1. copies /repo's working tree to a scratch dir under /tmp, checks demo.py passes there (pristine);
2. applies patch.diff, runs the pinned suite (must be 276/276) and demo.py (must fail);
3. runs the named checks (default: the property in meta.json) with KV_REPO on the mutant;
4. with --keep, stores patch/demo/meta (+ what was run and the verdicts) under /verif/seeded/<name>/.
The scratch copy is removed at the end.
"""
import json, os, shutil, subprocess, sys, tempfile

def run(cmd, **kw):
    return subprocess.run(cmd, capture_output=True, text=True, **kw)

def main():
    args = [a for a in sys.argv[1:] if not a.startswith('--')]
    src, name, props = os.path.abspath(args[0]), args[1], args[2:]
    tier = 'quick'
    if '--tier' in sys.argv:
        tier = sys.argv[sys.argv.index('--tier') + 1]
        props = [p for p in props if p != tier]
    meta = json.load(open(os.path.join(src, 'meta.json')))
    if not props:
        props = [meta['property']]
    tmp = tempfile.mkdtemp(prefix='kv_seed_')
    ran, verdicts = [], {}
    try:
        subprocess.check_call(['rsync', '-a', '--exclude', '.git', '--exclude', '__pycache__', '/repo/', tmp + '/'])
        env = dict(os.environ, PYTHONPATH=tmp, PYTHONDONTWRITEBYTECODE='1')
        demo = os.path.join(src, 'demo.py')
        r0 = run(['/venv/bin/python', demo], env=env, cwd=tmp)
        ran.append(f'demo.py on pristine copy of /repo HEAD: exit {r0.returncode}')
        p = run(['patch', '-p1', '-s', '-d', tmp], input=open(os.path.join(src, 'patch.diff')).read())
        if p.returncode != 0:
            print(f'{name}: PATCH NO LONGER APPLIES to the current /repo tree'); return 2
        rp = run([sys.executable, '/verif/tools/pinned.py', tmp])
        ran.append('pinned suite on patched copy: ' + rp.stdout.strip().split('\n')[0])
        r1 = run(['/venv/bin/python', demo], env=env, cwd=tmp)
        ran.append(f'demo.py on patched copy: exit {r1.returncode}')
        confirmed = r0.returncode == 0 and r1.returncode != 0 and rp.returncode == 0
        print(f'{name}: demo pristine exit={r0.returncode}, pinned {"ok" if rp.returncode == 0 else "FAIL"}, demo patched exit={r1.returncode} -> {"CONFIRMED" if confirmed else "NOT CONFIRMED"}')
        if not confirmed:
            print((r0.stdout + r0.stderr)[-600:]); print((r1.stdout + r1.stderr)[-600:]); print(rp.stdout[-600:])
        for pid in props:
            e2 = dict(os.environ, KV_REPO=tmp, KV_OUT='/tmp/kv_out')
            r = run(['/verif/check', pid, '--tier', tier], env=e2)
            lines = [l for l in r.stdout.split('\n') if l.startswith('VIOLATION') or l.startswith('  problem')]
            v = {0: 'MISSED', 1: 'CAUGHT', 2: 'HARNESS-ERROR'}.get(r.returncode, str(r.returncode))
            if r.returncode == 1 and not any(l.startswith('VIOLATION') for l in lines):
                v = 'HARNESS-ERROR'
            verdicts[f'{pid}:{tier}'] = v
            ran.append(f'KV_REPO=<patched copy> ./check {pid} --tier {tier}: {v}')
            print(f'   {pid} {tier}: {v} ' + (lines[0][:200] if lines else ''))
            if v == 'HARNESS-ERROR':
                print(r.stderr[-1500:])
        if '--keep' in sys.argv and confirmed:
            dst = os.path.join('/verif/seeded', name)
            os.makedirs(dst, exist_ok=True)
            if os.path.abspath(src) != os.path.abspath(dst):
                shutil.copy(os.path.join(src, 'patch.diff'), dst)
                shutil.copy(demo, dst)
            old = {}
            if os.path.exists(os.path.join(dst, 'meta.json')):
                old = json.load(open(os.path.join(dst, 'meta.json')))
            commit = subprocess.check_output(['git', '-C', '/repo', 'rev-parse', '--short', 'HEAD'], text=True).strip()
            meta2 = {'property': meta['property'], 'summary': meta.get('summary'),
                     'needs_to_manifest': meta.get('needs') or meta.get('needs_to_manifest'),
                     'files': meta.get('files'), 'confirmed_by': ran[:3], 'confirmed_on_repo_commit': commit,
                     'checks': dict(old.get('checks', {}), **verdicts)}
            json.dump(meta2, open(os.path.join(dst, 'meta.json'), 'w'), indent=1)
        return 0
    finally:
        shutil.rmtree(tmp, ignore_errors=True)
sys.exit(main())
