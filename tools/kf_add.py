#!/usr/bin/env python3
"""tools/kf_add.py <id> <property> <what> <example>   (development-time helper; never used by a check)"""
import json, sys
p = '/verif/known_findings.json'
d = json.load(open(p))
fid, prop, what, ex = sys.argv[1:5]
d['findings'] = [f for f in d['findings'] if not (f['id'] == fid and f['property'] == prop)]
d['findings'].append({'id': fid, 'property': prop, 'status': 'open', 'what': what, 'example': ex})
json.dump(d, open(p, 'w'), indent=1, ensure_ascii=False)
