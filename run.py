#!/venv/bin/python
"""run.py <Cxx> [--tier quick|thorough] [--replay file] [--shards N]

exit 0  the property held on everything explored (known findings are printed as KNOWN-FINDING lines)
exit 1  VIOLATION property=<id> replay=<path>
exit 2  the harness itself failed (never a VIOLATION line)
"""
import argparse
import importlib
import json
import multiprocessing
import os
import sys
import time
import warnings

HERE = os.path.dirname(os.path.abspath(__file__))
sys.path.insert(0, HERE)
REPO = os.path.abspath(os.environ.get('KV_REPO', '/repo'))
sys.path.insert(0, REPO)  # the working tree, even if the editable install were stale
warnings.simplefilter('ignore')

from kv import common  # noqa: E402


def _load(pid):
    return importlib.import_module(f'kv.props.{pid.lower()}')


def _open_findings(pid):
    return [f for f in common.load_known_findings() if f['property'] == pid and f['status'] == 'open']


def _replay_corpus(pid, mod, ctx):
    """regression tier: every saved case under corpus/<id>/ (shrunk failures of earlier defects and of seeded changes)
    is replayed first, without any generator"""
    d = os.path.join(HERE, 'corpus', pid)
    if not os.path.isdir(d):
        return
    n = 0
    for name in sorted(os.listdir(d)):
        if not name.endswith('.json'):
            continue
        with open(os.path.join(d, name), encoding='utf-8') as f:
            case = json.load(f)['case']
        un = ctx.evaluate(case, mod.replay)
        n += 1
        if un:
            ctx.violation(case, un)
    ctx.rec.notes['corpus_cases_replayed'] = n


def _shard(args):
    pid, tier, seed, shard, nshards = args
    warnings.simplefilter('ignore')
    mod = _load(pid)
    ctx = common.Ctx(pid, tier, seed, shard, nshards, getattr(mod, 'FINDINGS', {}),
                     [f['id'] for f in _open_findings(pid)])
    try:
        if shard == 0:
            _replay_corpus(pid, mod, ctx)
        mod.run(ctx)
    except common.HarnessError as he:
        ctx.rec.harness_errors.append(str(he))
    except Exception:
        import traceback
        ctx.rec.harness_errors.append(traceback.format_exc())
    return ctx.rec.to_dict()


def main():
    ap = argparse.ArgumentParser()
    ap.add_argument('pid')
    ap.add_argument('--tier', default=os.environ.get('VERIF_TIER', 'quick'), choices=['quick', 'thorough'])
    ap.add_argument('--replay')
    ap.add_argument('--shards', type=int, default=None)
    a = ap.parse_args()
    pid = a.pid.upper()
    seed = common.verif_seed()
    t0 = time.time()
    import kernpy  # noqa  (fail early, as a harness error, if the tree does not import)
    if not os.path.abspath(kernpy.__file__).startswith(REPO + os.sep):
        print(f'harness error: kernpy imported from {kernpy.__file__}, expected {REPO}', file=sys.stderr)
        return 2
    mod = _load(pid)
    open_f = _open_findings(pid)

    if a.replay:
        with open(a.replay, encoding='utf-8') as f:
            rp = json.load(f)
        ctx = common.Ctx(pid, a.tier, seed, 0, 1, getattr(mod, 'FINDINGS', {}), [f['id'] for f in open_f])
        try:
            un = ctx.evaluate(rp['case'], mod.replay)
        except common.HarnessError as he:
            print('harness error during replay:\n' + str(he), file=sys.stderr)
            return 2
        for fid, n in sorted(ctx.rec.known.items()):
            print(f'KNOWN-FINDING: property={pid} {fid} (replayed case)')
        if un:
            for p in un:
                print(f'  problem {p.sig}: {p.detail[:800]}')
            print(f'VIOLATION property={pid} replay={a.replay}')
            return 1
        print(f'replay of {a.replay}: property {pid} holds on this case')
        return 0

    nshards = a.shards or (getattr(mod, 'SHARDS_THOROUGH', 16) if a.tier == 'thorough' else getattr(mod, 'SHARDS_QUICK', 1))
    jobs = [(pid, a.tier, seed, i, nshards) for i in range(nshards)]
    if nshards == 1:
        parts = [_shard(jobs[0])]
    else:
        with multiprocessing.get_context('fork').Pool(min(nshards, os.cpu_count() or 1)) as pool:
            parts = pool.map(_shard, jobs, chunksize=1)
    rec = common.Recorder()
    for p in parts:
        rec.merge(p)
    wall = time.time() - t0

    # smallest violation per problem signature
    by_sig = {}
    for v in rec.violations:
        sig = v['problems'][0]['sig']
        if sig not in by_sig or len(common.jdump(v['case'])) < len(common.jdump(by_sig[sig]['case'])):
            by_sig[sig] = v
    status = 0
    if rec.harness_errors:
        status = 2
    common.write_evidence(pid, a.tier, seed, rec, mod.RULE, getattr(mod, 'ASSUMPTIONS', []), wall, len(by_sig),
                          level=getattr(mod, 'LEVEL', 'exploration'),
                          extra={'shards': nshards, 'harness_errors': len(rec.harness_errors)})
    what = {f['id']: f['what'] for f in open_f}
    for fid, n in sorted(rec.known.items()):
        print(f'KNOWN-FINDING: property={pid} {fid} {what.get(fid, "")} ({n} cases in this run)')
    print(f'{pid} {a.tier} seed={seed}: evaluations={rec.evaluations} distinct_nontrivial={len(rec.nontrivial)} '
          f'known={sum(rec.known.values())} violations={len(by_sig)} wall={wall:.1f}s')
    if rec.harness_errors:
        print('harness error (not a verdict about the property):\n' + rec.harness_errors[0][-3000:], file=sys.stderr)
        return 2
    if by_sig:
        for sig, v in sorted(by_sig.items()):
            path = common.write_replay(pid, v, a.tier, seed)
            print(f'  problem {sig}: {v["problems"][0]["detail"][:600]}')
            print(f'VIOLATION property={pid} replay={path}')
        return 1
    return status


if __name__ == '__main__':
    sys.exit(main())
